"""C09 — PiecewiseTreeRegressor and its compiled criteria (structural part).

  C09.a  (Python) _fit_reglin co-indexes X, y, sample_weight with the leaf mask;
         fit and predict number leaves through the same predict_leaves and index
         betas_ by its result; the intercept column is appended last, where the
         Cython criterion writes the constant feature
  C09.b  (Cython) in node_impurity / children_impurity_weights / node_value,
         every _mse(a, b, m, w) receives the mean and weight produced by
         _mean(a, b, ..) on the same (a, b); left = (start, pos), right = (pos, end)
  C09.c  (Cython) prefix-sum reads of the fast criterion have the form
         S[hi-1] - (S[lo-1] if lo > 0 else 0); the fill writes S[k] = S[k-1] + term
         from start+1; reads that omit the lower term rely on the zero-fill of all
         buffers over range(0, n_samples), which must be present

  C09.d  (Python) dispatch: with criterion 'mselin' every normal path of fit
         trains the tree and then the per-leaf regressions on the same X, y,
         sample_weight, and predict returns the per-leaf linear prediction; with
         'simple' neither happens and predict is the
         tree's own; fit and predict never write max_depth / min_samples_leaf

NOT decided: that impurities equal the true weighted MSE / least-squares
residual for every index triple (numerical / inductive) — see DESIGN.md.
"""

from __future__ import annotations

import ast
from typing import Dict, List, Optional, Tuple

from engine.src import FunctionInfo, own_nodes, own_nodes_incl_lambda, src_of, AnalysisError
from engine import cysrc
from engine.util import is_self_attr, enclosing_tests
from .pairing_rules import check_coindex
from .sem import expander, ctext, want, xt, conds_at, bind, calls, returns, stmt_of, self_attr_value_texts, defs_texts, gather_alternatives, same_selection, cy_expander, cy_fi, cy_returns
from engine import norm as _norm

RULES = {
    "C09.a": "Python side: leaf rows/targets/weights co-indexed; one leaf numbering at fit and predict; intercept column position agrees with the Cython criterion",
    "C09.b": "Cython: each _mse call receives the mean and weight computed by _mean on the same index range; left=(start,pos), right=(pos,end)",
    "C09.d": "dispatch by criterion (path-sensitive evaluation with self.criterion bound to 'mselin' / 'simple'): fit -> tree fit then _fit_reglin on the same data iff 'mselin'; predict -> _predict_reglin iff 'mselin', else the tree's predict; max_depth and min_samples_leaf are written nowhere outside the constructor",
    "C09.e": "Cython linear criterion: the LAPACK least-squares driver is called on (end - start) x nbvar with one right-hand side = weighted targets of the same rows, and discards singular values at machine precision only",
    "C09.c": "Cython fast criterion: prefix-sum reads S[hi-1] - (S[lo-1] if lo > 0 else 0); cumulative fill; zero-fill invariant for reads that omit the lower term",
}

PY = "mlinsights.mlmodel.piecewise_tree_regression"
COMMON = "mlinsights/mlmodel/_piecewise_tree_regression_common.pyx"
FAST = "mlinsights/mlmodel/piecewise_tree_regression_criterion_fast.pyx"
LINEAR = "mlinsights/mlmodel/piecewise_tree_regression_criterion_linear.pyx"
SIMPLE = "mlinsights/mlmodel/piecewise_tree_regression_criterion.pyx"


def _loop_idx(x: ast.AST, over: str) -> bool:
    """x is the position variable of a loop over `over` (enumerate / range(len))"""
    return isinstance(x, ast.Call) and isinstance(x.func, ast.Name) and x.func.id == "__it__" and ast.unparse(x.args[0]) == over and "idx" in ast.unparse(x.args[1])


def _unwrap_rows(x: ast.AST) -> ast.AST:
    while True:
        if isinstance(x, ast.Call) and isinstance(x.func, ast.Attribute) and x.func.attr in ("ravel", "flatten", "copy", "astype", "squeeze") :
            x = x.func.value
        elif isinstance(x, ast.Call) and ast.unparse(x.func).split(".")[-1] in ("asarray", "array", "ravel", "squeeze") and x.args:
            x = x.args[0]
        else:
            return x


def check_a(ck, repo):
    ci = repo.cls(PY, "PiecewiseTreeRegressor")
    fr, pr, pl = ci.methods.get("_fit_reglin"), ci.methods.get("_predict_reglin"), ci.methods.get("predict_leaves")
    if fr is None or pr is None or pl is None:
        raise AnalysisError("anchor vanished: PiecewiseTreeRegressor._fit_reglin/_predict_reglin/predict_leaves")
    ex = expander(repo)
    pX, py_, psw = fr.named_params[1:4]
    creates = calls(fr, lambda c: isinstance(c.func, ast.Attribute) and c.func.attr == "create")
    if len(creates) != 1:
        ck.violated("C09.a", fr, "LinearRegressorCriterion.create(xs, ys, ws)", f"{len(creates)} constructions of the per-leaf regression found")
    else:
        c = creates[0]
        args = list(c.args) + [k.value for k in c.keywords]
        alts = [gather_alternatives(repo, fr, a, c) for a in args[:3]]
        if len(alts) < 3:
            ck.violated("C09.a", fr, c, "the per-leaf regression is no longer built from mask-selected X, y, sample_weight")
        else:
            bases = [{a[1] for a in v} for v in alts]
            ck.verdict(bases == [{pX}, {py_}, {psw}], "C09.a", fr, f"{src_of(c)}: sources", "leaf features, targets and weights are taken from X, y, sample_weight", f"create() receives selections of {bases}, not of ({pX}, {py_}, {psw})")
            sel = [{(a[0], a[2], a[3]) for a in v} for v in alts]
            same = same_selection(alts)
            ck.verdict(same, "C09.a", fr, c, "X, y and sample_weight of a leaf are selected by the same row index", f"create(): X is selected with {sorted(x[1] or '?' for x in sel[0])}, y with {sorted(x[1] or '?' for x in sel[1])}, sample_weight with {sorted(x[1] or '?' for x in sel[2])}: rows, targets and weights of a leaf are not kept together")
            # the mask: predict_leaves(X) == position of the leaf in leaves_index_
            lt = None
            for conds, base, rows, leaves in alts[0]:
                try:
                    r = ast.parse(rows, mode="eval").body if rows else None
                except SyntaxError:
                    r = None
                okm = False
                if isinstance(r, ast.Compare) and len(r.ops) == 1 and isinstance(r.ops[0], ast.Eq):
                    a, b = r.left, r.comparators[0]
                    for u, v in ((a, b), (b, a)):
                        if ast.unparse(u) == want(repo, f"self.predict_leaves({pX})", fr, c) and _loop_idx(v, "self.leaves_index_"):
                            okm = True
                            lt = ast.unparse(v)
                ck.verdict(okm, "C09.a", fr, f"leaf mask {rows}", "leaf i's rows are those predict_leaves maps to i (i = position in leaves_index_)", f"the rows of leaf i are selected by {rows}, not by self.predict_leaves({pX}) == i")
            beta = calls(fr, lambda c_: isinstance(c_.func, ast.Attribute) and c_.func.attr == "node_beta")
            okb = False
            if len(beta) == 1 and beta[0].args:
                tgt = ex.norm_expr(beta[0].args[0], fr, beta[0])
                if isinstance(tgt, ast.Subscript) and ast.unparse(tgt.value) == "self.betas_":
                    sl = tgt.slice
                    first = sl.elts[0] if isinstance(sl, ast.Tuple) else sl
                    rest = sl.elts[1:] if isinstance(sl, ast.Tuple) else []
                    okb = lt is not None and ast.unparse(first) == lt and all(isinstance(x, ast.Slice) and x.lower is None and x.upper is None for x in rest)
                recv = ex.text(beta[0].func.value, fr, beta[0])
                okb = okb and recv == ex.text(c, fr, c)
            ck.verdict(okb, "C09.a", fr, beta[0] if beta else "dec.node_beta(self.betas_[i, :])", "coefficients of leaf i (solved on its rows) stored in row i of betas_", "coefficients are not stored in the row of their own leaf, or do not come from the regression built on the leaf's rows")
            if beta:
                loops = [p_ for p_ in _parents(beta[0]) if isinstance(p_, ast.For)]
                base_c = conds_at(repo, fr, loops[0].body[0]) if loops else frozenset()
                ck.verdict(bool(loops) and conds_at(repo, fr, beta[0]) == base_c, "C09.a", fr, "leaf loop body reaches node_beta", "every leaf's coefficients come from the least-squares solver", "some leaves skip the least-squares solve (conditional / early continue): their prediction is not the OLS fit of the leaf's rows")
    stores = [x for x in own_nodes(fr.node) if isinstance(x, (ast.Assign, ast.AugAssign)) and any(isinstance(t, ast.Subscript) and src_of(t.value) == "self.betas_" for t in (x.targets if isinstance(x, ast.Assign) else [x.target]))]
    ck.verdict(not stores, "C09.a", fr, stores[0] if stores else "no direct store into self.betas_[...]", "betas_ rows are written only by node_beta", "betas_ is also written directly, bypassing the per-leaf least squares")
    shp = [t.replace(" ", "") for _, t in self_attr_value_texts(repo, fr, "betas_")]
    dims = ctext(f"(len(self.leaves_index_), {pX}.shape[1] + 1)").replace(" ", "")
    ck.verdict(len(shp) == 1 and any(shp[0].startswith(f"numpy.{f}({dims}") for f in ("empty", "zeros")), "C09.a", fr, f"self.betas_ = {shp}", "betas_ has one row per leaf and n_features + 1 columns", "betas_ is not (number of leaves) x (n_features + 1)")
    # predict side
    pXp = pr.named_params[1]
    dots = [c for c in own_nodes_incl_lambda(pr.node) if (isinstance(c, ast.Call) and src_of(c.func) in ("numpy.dot", "numpy.matmul", "numpy.inner")) or (isinstance(c, ast.BinOp) and isinstance(c.op, ast.MatMult))]
    okd = okh = False
    if len(dots) == 1:
        d = dots[0]
        a, b = (d.args[0], d.args[1]) if isinstance(d, ast.Call) and len(d.args) == 2 else ((d.left, d.right) if isinstance(d, ast.BinOp) else (None, None))
        if a is not None:
            st = stmt_of(d)
            xa, xb = ex.norm_expr(a, pr, st), ex.norm_expr(b, pr, st)
            # features row i (with the constant appended last) times betas_[leaf of row i]
            if isinstance(xa, ast.Subscript) and isinstance(xb, ast.Subscript) and ast.unparse(xb.value) == "self.betas_":
                ia = xa.slice.elts[0] if isinstance(xa.slice, ast.Tuple) else xa.slice
                ib = xb.slice.elts[0] if isinstance(xb.slice, ast.Tuple) else xb.slice
                okd = _loop_idx(ia, pXp) and isinstance(ib, ast.Subscript) and ast.unparse(ib.value) == want(repo, f"self.predict_leaves({pXp})", pr, st) and ast.unparse(ib.slice) == ast.unparse(ia)
                feats = ast.unparse(xa.value).replace(" ", "")
                ones = f"numpy.ones(({pXp}.shape[0],1))"
                okh = feats in (f"numpy.hstack([{pXp},{ones}])", f"numpy.hstack(({pXp},{ones}))", f"numpy.column_stack([{pXp},{ones}])", f"numpy.column_stack(({pXp},{ones}))", f"numpy.c_[{pXp},{ones}]")
    ck.verdict(okd, "C09.a", pr, dots[0] if len(dots) == 1 else "numpy.dot(Xone[i, :], self.betas_[leaves[i], :])", "row i uses the coefficients of its own leaf (numbered by the same predict_leaves)", "a row is not multiplied by the coefficients of its own leaf")
    ck.verdict(okh, "C09.a", pr, "numpy.hstack([X, ones])", "the intercept column is appended after the features", "the constant column is not appended last: coefficients are applied to the wrong features")
    # the features multiplied by betas_ are the caller's values, not a float32-rounded copy
    LOSSY = ("_validate_X_predict", "float32")
    rebinds = [x for x in own_nodes(pr.node) if isinstance(x, ast.Assign) and any(isinstance(t, ast.Name) and t.id == pXp for t in x.targets)]
    lossy = [x for x in rebinds if any(k in src_of(x.value) for k in LOSSY)]
    ck.verdict(not lossy, "C09.a", pr, lossy[0] if lossy else "X is not re-typed before the linear model", "coefficients fitted on float64 rows are applied to the same values", "X is converted to the tree's float32 input type before the per-leaf linear model is applied: betas_ were fitted on float64 rows, so predictions differ from the least-squares fit evaluated at the row")
    # predict_leaves = argmax over the columns of leaves_index_
    rs = returns(repo, pl)
    okp = False
    if len(rs) == 1:
        try:
            v = _unwrap_rows(ast.parse(rs[0][1], mode="eval").body)
        except SyntaxError:
            v = None
        if isinstance(v, ast.Call) and ast.unparse(v.func) in ("numpy.argmax",) and v.args:
            ax = v.args[1] if len(v.args) > 1 else next((k.value for k in v.keywords if k.arg == "axis"), None)
            okp = ast.unparse(v.args[0]) == f"self.decision_path({pl.named_params[1]})[:, self.leaves_index_]" and ax is not None and ast.unparse(ax) == "1"
        elif isinstance(v, ast.Call) and isinstance(v.func, ast.Attribute) and v.func.attr == "argmax":
            ax = v.args[0] if v.args else next((k.value for k in v.keywords if k.arg == "axis"), None)
            okp = ast.unparse(v.func.value) == f"self.decision_path({pl.named_params[1]})[:, self.leaves_index_]" and ax is not None and ast.unparse(ax) == "1"
    ck.verdict(okp, "C09.a", pl, "argmax over decision_path(X)[:, leaves_index_]", "leaf number = position of the row's leaf in leaves_index_", "predict_leaves no longer returns the position of the row's leaf within leaves_index_")
    # cross-language: constant feature written after the feature loop
    try:
        lm = cysrc.parse(repo, LINEAR)
        iw = lm.method("LinearRegressorCriterion", "init_with_X")
        loops = [l for l in ast.walk(iw) if isinstance(l, ast.For) and src_of(l.iter) in ("range(0, self.nbvar - 1)", "range(self.nbvar - 1)")]
        okc = False
        if len(loops) == 1:
            outer = loops[0]._parent
            sib = outer.body
            k = [i for i, s in enumerate(sib) if s is loops[0]][0]
            after = [src_of(s) for s in sib[k + 1 : k + 3]]
            okc = after[:1] == ["self.sample_f[idx] = 1.0"] and src_of(loops[0].body[0]) == "self.sample_f[idx] = X[ks, c]"
        if not okc:
            # other spellings of the same layout: a loop over the rows writing 1 at r * nbvar - 1
            # (r = 1..n_samples) or at r * nbvar + nbvar - 1 (r = 0..n_samples-1), in any method
            ones = []
            kcls = lm.cls("LinearRegressorCriterion")
            for mname_, fn_ in kcls.methods.items():
                for st_ in ast.walk(fn_):
                    if isinstance(st_, ast.Assign) and isinstance(st_.targets[0], ast.Subscript) and src_of(st_.targets[0].value) == "self.sample_f" and isinstance(st_.value, ast.Constant) and st_.value.value in (1, 1.0):
                        ones.append((mname_, st_))
            verdict_ = None
            for mname_, st_ in ones:
                e_ = ctext(src_of(st_.targets[0].slice))
                loop_ = next((p_ for p_ in _parents(st_) if isinstance(p_, ast.For) and isinstance(p_.target, ast.Name)), None)
                if loop_ is None:
                    continue
                v_ = loop_.target.id
                rng_ = ctext(src_of(loop_.iter))
                form1 = {ctext(f"{v_} * self.nbvar - 1"), ctext(f"self.nbvar * {v_} - 1")}
                form0 = {ctext(f"{v_} * self.nbvar + self.nbvar - 1"), ctext(f"({v_} + 1) * self.nbvar - 1"), ctext(f"{v_} * self.nbvar + (self.nbvar - 1)"), ctext(f"self.nbvar * {v_} + self.nbvar - 1")}
                if e_ in form1:
                    verdict_ = (rng_ in (ctext("range(1, self.n_samples + 1)"), ctext("range(1, 1 + self.n_samples)")), mname_, st_, rng_, "1..n_samples")
                elif e_ in form0:
                    verdict_ = (rng_ in (ctext("range(self.n_samples)"), ctext("range(0, self.n_samples)")), mname_, st_, rng_, "0..n_samples-1")
            if verdict_ is not None:
                ok_, mname_, st_, rng_, want_ = verdict_
                ck.verdict(ok_, "C09.a", None, f"{src_of(st_)} for {rng_}", "the constant feature is the last column of every row of sample_f, like numpy.hstack([X, ones])", f"the constant feature is written at the last column for {rng_} only, not for the rows {want_}: some rows keep 0 as their intercept feature, so the regression on a range holding them (and betas_) is not the least-squares fit with intercept", file=LINEAR, function=f"LinearRegressorCriterion.{mname_}", line=getattr(st_, "_orig_lineno", st_.lineno))
            elif ones:
                ck.unknown("C09.a", None, src_of(ones[0][1]), "the constant feature is written in a form whose column and row coverage this rule does not read", file=LINEAR, function=f"LinearRegressorCriterion.{ones[0][0]}", line=getattr(ones[0][1], "_orig_lineno", ones[0][1].lineno))
            else:
                ck.verdict(False, "C09.a", None, "self.sample_f[idx] = 1.0 after the feature loop", "", "the Cython criterion no longer writes the constant feature after the n_features columns: betas_ and _predict_reglin disagree on the intercept position", file=LINEAR, function="LinearRegressorCriterion.init_with_X", line=getattr(iw, "lineno", 0))
        else:
            ck.verdict(okc, "C09.a", None, "self.sample_f[idx] = 1.0 after the feature loop", "Cython criterion stores the constant feature last, like numpy.hstack([X, ones])", "the Cython criterion no longer writes the constant feature after the n_features columns: betas_ and _predict_reglin disagree on the intercept position", file=LINEAR, function="LinearRegressorCriterion.init_with_X", line=getattr(iw, "lineno", 0))
        nb = [src_of(s.value) for s in ast.walk(lm.method("LinearRegressorCriterion", "__cinit__")) if isinstance(s, ast.Assign) and src_of(s.targets[0]) == "self.nbvar"]
        ck.verdict(nb == ["self.n_features + 1"], "C09.a", None, f"self.nbvar = {nb}", "nbvar = n_features + 1 (features + intercept)", "nbvar is not n_features + 1", file=LINEAR, function="LinearRegressorCriterion.__cinit__", line=0)
    except ImportError as e:
        ck.unknown("C09.a", None, "Cython parser", str(e), file=LINEAR, function="-", line=0)


def _parents(n):
    p = getattr(n, "_parent", None)
    while p is not None:
        yield p
        p = getattr(p, "_parent", None)


def _calls(fn, name):
    return [c for c in ast.walk(fn) if isinstance(c, ast.Call) and isinstance(c.func, ast.Attribute) and c.func.attr == name and src_of(c.func.value) == "self"]


_CTOR_LIKE = {"__cinit__", "__dealloc__", "__init__", "__getstate__", "__setstate__", "__reduce__", "__deepcopy__", "init", "init_with_X", "create", "impurity_improvement"}


def _resolved_methods(repo, relpath, cname, common):
    cm = cysrc.parse(repo, relpath)
    k = cm.cls(cname)
    meths = dict(common.methods)
    meths.update(k.methods)
    return k, meths


def _writes_through(meths, fn, pname, depth=0):
    """does the method store through its pointer parameter (p[0] = .., or by handing it on)?"""
    if depth > 4:
        return False
    for n in ast.walk(fn):
        if isinstance(n, (ast.Assign, ast.AugAssign)):
            for t in (n.targets if isinstance(n, ast.Assign) else [n.target]):
                if isinstance(t, ast.Subscript) and isinstance(t.value, ast.Name) and t.value.id == pname:
                    return True
        if isinstance(n, ast.Call) and isinstance(n.func, ast.Attribute) and src_of(n.func.value) == "self" and n.func.attr in meths:
            callee = meths[n.func.attr]
            params = [a.arg for a in callee.args.args][1:]
            for i, a in enumerate(n.args):
                if isinstance(a, ast.Name) and a.id == pname and i < len(params) and _writes_through(meths, callee, params[i], depth + 1):
                    return True
    return False


def _field_writers(meths, field):
    out = []
    for mname, fn in meths.items():
        if mname in _CTOR_LIKE:
            continue
        for n in ast.walk(fn):
            if isinstance(n, (ast.Assign, ast.AugAssign)):
                for t in (n.targets if isinstance(n, ast.Assign) else [n.target]):
                    if src_of(t) == f"self.{field}":
                        out.append(mname)
            if isinstance(n, ast.Call) and isinstance(n.func, ast.Attribute) and src_of(n.func.value) == "self" and n.func.attr in meths:
                callee = meths[n.func.attr]
                params = [a.arg for a in callee.args.args][1:]
                for i, a in enumerate(n.args):
                    if src_of(a) == f"self.{field}" and i < len(params) and _writes_through(meths, callee, params[i]):
                        out.append(mname)
    return sorted(set(out))


def check_b_state(ck, repo):
    """every concrete criterion maintains the side weights its improvement reads"""
    common = cysrc.parse(repo, COMMON).cls("CommonRegressorCriterion")
    imp = common.methods.get("impurity_improvement")
    for relpath, cname in ((SIMPLE, "SimpleRegressorCriterion"), (FAST, "SimpleRegressorCriterionFast"), (LINEAR, "LinearRegressorCriterion")):
        k, meths = _resolved_methods(repo, relpath, cname, common)
        fn = meths.get("impurity_improvement", imp)
        if fn is None:
            continue
        reads = sorted({n.attr for n in ast.walk(fn) if isinstance(n, ast.Attribute) and src_of(n.value) == "self" and isinstance(n.ctx, ast.Load) and n.attr in ("weighted_n_left", "weighted_n_right")})
        for field in reads:
            ws = _field_writers(meths, field)
            ck.verdict(bool(ws), "C09.b", None, f"{cname}: self.{field} maintained by {ws}", "the side weight read by impurity_improvement is kept up to date by a method of this criterion", f"{cname}.impurity_improvement reads self.{field}, but no method this class resolves (own or inherited: reset/update/_update_weights/proxy_impurity_improvement/children_impurity) ever writes it: the improvement is computed with the weight left by the constructor", file=relpath, function=f"{cname}.impurity_improvement", line=getattr(fn, "_orig_lineno", fn.lineno))


def check_e(ck, repo):
    """the least-squares solve of the linear criterion"""
    lm = cysrc.parse(repo, LINEAR)
    fi = cy_fi(lm, "LinearRegressorCriterion", "_reglin")
    ex = cy_expander(repo)
    where = dict(file=LINEAR, function="LinearRegressorCriterion._reglin")
    solves = [c for c in ast.walk(fi.node) if isinstance(c, ast.Call) and isinstance(c.func, ast.Attribute) and c.func.attr in ("dgelss", "dgelsd", "dgelsy", "dgels")]
    if len(solves) != 1:
        ck.unknown("C09.e", None, "_reglin: LAPACK least-squares driver", f"{len(solves)} calls of a ?gels* driver found", line=fi.node.lineno, **where)
        return
    c = solves[0]
    drv = c.func.attr
    args = [ex.text(a, fi, c) for a in c.args]
    ln = getattr(c, "_orig_lineno", c.lineno)
    dims = args[:3]
    ck.verdict(dims == ["end - start", "self.nbvar", "1"], "C09.e", None, f"{drv}(m, n, nrhs) = {dims}", "the system solved has one row per sample of the range, nbvar columns, one right-hand side", f"{drv} is called with (m, n, nrhs) = {dims}, not (end - start, self.nbvar, 1): the regression is not solved on the node's rows", line=ln, **where)
    if drv in ("dgelss", "dgelsd", "dgelsy") and len(args) >= 9:
        rc = args[8]
        try:
            v = float(ast.literal_eval(rc))
        except (ValueError, SyntaxError):
            v = None
        if v is None:
            ck.unknown("C09.e", None, f"{drv}: rcond = {rc}", "the singular-value threshold is not a constant", line=ln, **where)
        else:
            ck.verdict(v <= 2.3e-16, "C09.e", None, f"{drv}: rcond = {rc}", "singular values are discarded at machine precision only: the solution is the least-squares one", f"rcond = {rc}: directions whose singular value is below {rc} times the largest are dropped, so on badly scaled leaves the coefficients and the impurity are those of a truncated fit, not of the least-squares fit", line=ln, **where)
    # the impurity is recomputed from the data: residual of every row of the range
    ms = cy_fi(lm, "LinearRegressorCriterion", "_mse")
    reads = {n_.attr for n_ in ast.walk(ms.node) if isinstance(n_, ast.Attribute) and src_of(n_.value) == "self" and isinstance(n_.ctx, ast.Load)}
    loops_ = [l_ for l_ in ast.walk(ms.node) if isinstance(l_, ast.For) and ctext(src_of(l_.iter)) in (ctext("range(start, end)"),)]
    in_loop = {n_.attr for l_ in loops_ for n_ in ast.walk(l_) if isinstance(n_, ast.Attribute) and src_of(n_.value) == "self"}
    need = {"sample_f", "sample_y", "sample_w"}
    ck.verdict(need <= in_loop, "C09.e", None, f"_mse: loop over range(start, end) reads {sorted(in_loop & need)}", "the squared residuals are recomputed row by row from the features, the targets and the weights of the range", f"_mse no longer recomputes the residual of every row of (start, end) from sample_f, sample_y and sample_w (reads in such a loop: {sorted(in_loop & need)}): a by-product of the solver (e.g. the tail of the right-hand side after dgelss) is the residual norm only when the design of the range has full column rank, so the impurity of a range with a constant or duplicated feature is wrong", file=LINEAR, function="LinearRegressorCriterion._mse", line=ms.node.lineno)
    # node value of the linear criterion: sum of w*y over sum of w
    mn_ = cy_fi(lm, "LinearRegressorCriterion", "_mean")
    adds = {}
    for a_ in ast.walk(mn_.node):
        if isinstance(a_, ast.AugAssign) and isinstance(a_.op, ast.Add) and isinstance(a_.target, ast.Name) and isinstance(a_.value, ast.Subscript) and src_of(a_.value.value).startswith("self."):
            adds[a_.target.id] = src_of(a_.value.value)
    ck.verdict(sorted(adds.values()) == ["self.sample_w", "self.sample_wy"], "C09.e", None, f"_mean accumulates {sorted(adds.values())}", "weighted mean = sum of w*y over sum of w on the range", f"_mean of the linear criterion accumulates {sorted(adds.values())}, not sample_wy and sample_w: with non-unit weights the node value is not the weighted mean of the targets", file=LINEAR, function="LinearRegressorCriterion._mean", line=mn_.node.lineno)
    # right-hand side: weighted targets of the same rows
    rhs = [s for s in ast.walk(fi.node) if isinstance(s, ast.Assign) and isinstance(s.targets[0], ast.Subscript) and ex.text(s.targets[0].value, fi, s) in ("self.sample_pC", "pC")]
    okr = len(rhs) == 1 and src_of(rhs[0].targets[0].slice) == "i - start" and src_of(rhs[0].value) == "self.sample_wy[i]" and any(isinstance(p, ast.For) and src_of(p.iter) == "range(start, end)" and src_of(p.target) == "i" for p in _parents(rhs[0]))
    ck.verdict(okr, "C09.e", None, rhs[0] if rhs else "pC[i - start] = self.sample_wy[i]", "right-hand side = weighted targets of rows start..end", "the right-hand side of the regression is not the weighted targets of the node's rows, in order", line=getattr(rhs[0], "_orig_lineno", rhs[0].lineno) if rhs else fi.node.lineno, **where)



def _range_text(fn, e):
    """Text of a range bound, read through a local that holds a field of the criterion
    (`start = self.start`, bound once, the field not written in the method)."""
    if isinstance(e, ast.Name):
        defs = [s for s in ast.walk(fn) if isinstance(s, (ast.Assign, ast.AnnAssign)) and getattr(s, "value", None) is not None
                and src_of(s.targets[0] if isinstance(s, ast.Assign) else s.target) == e.id]
        stores = [n for n in ast.walk(fn) if isinstance(n, ast.Name) and n.id == e.id and isinstance(n.ctx, ast.Store)]
        if len(defs) == 1 and len(stores) == 1:
            v = defs[0].value
            if isinstance(v, ast.Attribute) and isinstance(v.value, ast.Name) and v.value.id == "self":
                written = any(isinstance(n, ast.Attribute) and isinstance(n.ctx, ast.Store) and src_of(n) == src_of(v) for n in ast.walk(fn))
                if not written:
                    return src_of(v)
    return src_of(e)


def check_b(ck, repo):
    cm = cysrc.parse(repo, COMMON)
    c = cm.cls("CommonRegressorCriterion")
    expected = {
        "node_impurity": [("self.start", "self.end")],
        "children_impurity_weights": [("self.start", "self.pos"), ("self.pos", "self.end")],
        "node_value": [("self.start", "self.end")],
    }
    for mname, ranges in expected.items():
        fn = c.methods.get(mname)
        if fn is None:
            raise AnalysisError(f"anchor vanished: CommonRegressorCriterion.{mname}")
        means = _calls(fn, "_mean")
        mses = _calls(fn, "_mse")
        got = [(_range_text(fn, m.args[0]), _range_text(fn, m.args[1])) for m in means]
        ck.verdict(got == ranges, "C09.b", None, f"{mname}: _mean ranges {got}", "means computed on the node / left / right ranges", f"{mname} computes means on {got}, expected {ranges}", file=COMMON, function=f"CommonRegressorCriterion.{mname}", line=fn.lineno)
        for ms in mses:
            a, b, mean, w = [src_of(x) for x in ms.args[:4]]
            # the matching _mean
            match = [m for m in means if (src_of(m.args[0]), src_of(m.args[1])) == (a, b)]
            if not match:
                ck.violated("C09.b", None, ms, f"{mname}: _mse({a}, {b}, ..) has no _mean on the same range: the impurity is centred on another range's mean", file=COMMON, function=f"CommonRegressorCriterion.{mname}", line=ms.lineno)
                continue
            m = match[0]
            m_mean, m_w = src_of(m.args[2]), src_of(m.args[3])
            okm = mean == m_mean
            okw = w in (m_w, f"{m_w}[0]")
            before = m.lineno <= ms.lineno
            ck.verdict(okm and okw and before, "C09.b", None, ms, f"{mname}: _mse({a},{b}) uses the mean and weight of _mean({a},{b})", f"{mname}: _mse({a}, {b}, {mean}, {w}) does not use the mean/weight produced by _mean({a}, {b}, {m_mean}, {m_w})", file=COMMON, function=f"CommonRegressorCriterion.{mname}", line=ms.lineno)
    # children_impurity_weights: left result from the (start,pos) pair, right from (pos,end)
    fn = c.methods["children_impurity_weights"]
    asg = {src_of(s.targets[0]): s.value for s in ast.walk(fn) if isinstance(s, ast.Assign) and isinstance(s.value, ast.Call)}
    l, r = asg.get("impurity_left[0]"), asg.get("impurity_right[0]")
    okl = l is not None and [_range_text(fn, x) for x in l.args[:2]] == ["self.start", "self.pos"]
    okr = r is not None and [_range_text(fn, x) for x in r.args[:2]] == ["self.pos", "self.end"]
    ck.verdict(okl and okr, "C09.b", None, "impurity_left <- (start,pos); impurity_right <- (pos,end)", "left and right impurities come from their own ranges", "left/right impurities are computed on exchanged or wrong ranges", file=COMMON, function="CommonRegressorCriterion.children_impurity_weights", line=fn.lineno)
    # update/reset/reverse_reset keep pos and the weights in step
    for mname, newpos in (("update", "new_pos"), ("reset", "self.start"), ("reverse_reset", "self.end")):
        fn = c.methods.get(mname)
        if fn is None:
            continue
        uw = _calls(fn, "_update_weights")
        setpos = [src_of(s.value) for s in ast.walk(fn) if isinstance(s, ast.Assign) and src_of(s.targets[0]) == "self.pos"]
        ok = len(uw) == 1 and [src_of(x) for x in uw[0].args] == ["self.start", "self.end", "self.pos", newpos] and setpos == [newpos]
        ck.verdict(ok, "C09.b", None, f"{mname}: _update_weights(start, end, pos, {newpos}); pos = {newpos}", "split position and side weights move together", f"{mname} moves pos to {setpos} but updates the weights for {[src_of(x) for x in uw[0].args] if uw else None}", file=COMMON, function=f"CommonRegressorCriterion.{mname}", line=fn.lineno)
    # impurity_improvement: weighted by the right side for the right impurity, the left side for the left
    fn = c.methods.get("impurity_improvement")
    if fn is not None:
        cfi = cy_fi(cm, "CommonRegressorCriterion", "impurity_improvement")
        rs = [t for _, t in cy_returns(repo, cfi)]
        W = "self.weighted_n_node_samples"
        forms = set()
        for r_ in (f"self.weighted_n_right / {W} * impurity_right", f"impurity_right * self.weighted_n_right / {W}", f"self.weighted_n_right * impurity_right / {W}"):
            for l_ in (f"self.weighted_n_left / {W} * impurity_left", f"impurity_left * self.weighted_n_left / {W}", f"self.weighted_n_left * impurity_left / {W}"):
                for body in (f"impurity_parent - ({r_}) - ({l_})", f"impurity_parent - ({l_}) - ({r_})", f"impurity_parent - (({r_}) + ({l_}))", f"impurity_parent - (({l_}) + ({r_}))"):
                    forms.add(ctext(f"{W} / self.weighted_n_samples * ({body})"))
        ok = len(rs) >= 1 and rs[-1] in forms
        ck.verdict(ok, "C09.b", None, "impurity_improvement", "N_t/N * (parent - (w_right/N_t) right - (w_left/N_t) left)", f"improvement is {rs[-1] if rs else None}: each child's impurity is not weighted by its own side", file=COMMON, function="CommonRegressorCriterion.impurity_improvement", line=fn.lineno)


def _prefix_read(e: ast.AST) -> Optional[Tuple[str, str, Optional[str], bool]]:
    """(buffer, hi, lo, guarded) for S[hi-1] - (S[lo-1] if lo > 0 else 0), or
    (buffer, hi, None, False) for a bare S[hi-1]."""
    def idx_minus1(sub):
        if isinstance(sub, ast.Subscript) and isinstance(sub.slice, ast.BinOp) and isinstance(sub.slice.op, ast.Sub) and src_of(sub.slice.right) == "1":
            return src_of(sub.value), src_of(sub.slice.left)
        return None

    if isinstance(e, ast.BinOp) and isinstance(e.op, ast.Sub):
        hi = idx_minus1(e.left)
        r = e.right
        if hi and isinstance(r, ast.IfExp):
            lo = idx_minus1(r.body)
            g = src_of(r.test)
            if lo and lo[0] == hi[0] and src_of(r.orelse) in ("0", "0.0") and g in (f"{lo[1]} > 0", f"0 < {lo[1]}", f"{lo[1]} >= 1", f"{lo[1]} != 0"):
                return hi[0], hi[1], lo[1], True
            return hi[0], hi[1], lo[1] if lo else "?", False
        lo = idx_minus1(r)
        if hi and lo and lo[0] == hi[0]:
            return hi[0], hi[1], lo[1], False
    one = idx_minus1(e)
    if one:
        return one[0], one[1], None, False
    return None


def check_c(ck, repo):
    fm = cysrc.parse(repo, FAST)
    cname = "SimpleRegressorCriterionFast"
    init = fm.method(cname, "init_with_X")
    bufs = ["self.sample_w_left", "self.sample_wy_left", "self.sample_wy2_left"]
    # zero-fill over range(0, n_samples)
    zl = [l for l in ast.walk(init) if isinstance(l, ast.For) and src_of(l.iter) in ("range(0, self.n_samples)", "range(self.n_samples)")]
    zeroed = set()
    for l in zl:
        iv = src_of(l.target)
        for s in l.body:
            if isinstance(s, ast.Assign) and src_of(s.value) in ("0", "0.0") and isinstance(s.targets[0], ast.Subscript) and src_of(s.targets[0].slice) == iv:
                zeroed.add(src_of(s.targets[0].value))
    # memset(buf, 0, n_samples * sizeof(..)) zero-fills the same range
    locals_ = {src_of(s_.targets[0]): s_.value for s_ in init.body if isinstance(s_, ast.Assign) and len(s_.targets) == 1 and isinstance(s_.targets[0], ast.Name)}
    for s_ in ast.walk(init):
        if isinstance(s_, ast.Expr) and isinstance(s_.value, ast.Call) and src_of(s_.value.func) == "memset" and len(s_.value.args) == 3 and src_of(s_.value.args[1]) == "0":
            nb = s_.value.args[2]
            if isinstance(nb, ast.Name) and nb.id in locals_:
                nb = locals_[nb.id]
            if isinstance(nb, ast.BinOp) and isinstance(nb.op, ast.Mult) and any(src_of(x) == "self.n_samples" for x in (nb.left, nb.right)) and any(src_of(x).startswith("sizeof(") for x in (nb.left, nb.right)):
                zeroed.add(src_of(s_.value.args[0]))
    zero_ok = set(bufs) <= zeroed
    ck.verdict(zero_ok, "C09.c", None, f"zero-fill of {sorted(zeroed)} over range(0, n_samples)", "all three cumulative buffers are zero-filled over the whole sample range before the fill", "the cumulative buffers are not all zero-filled over range(0, n_samples): reads that rely on S[start-1] == 0 (weighted_n_left, weighted_n_node_samples, the `start > 0` reads at a node's own start) see stale sums of another node", file=FAST, function=f"{cname}.init_with_X", line=init.lineno)
    # fill: first element absolute at `start`, then S[k] = S[k-1] + term from start+1
    fills = [l for l in ast.walk(init) if isinstance(l, ast.For) and src_of(l.iter) in ("range(start + 1, end)",)]
    firsts = [l for l in ast.walk(init) if isinstance(l, ast.For) and src_of(l.iter) in ("range(start, start + 1)",)]
    okf = False

    def _subst_flags(txt: str) -> str:
        # a local holding `sample_weight is not None` stands for the test itself
        for nm, v in locals_.items():
            if src_of(v) == "sample_weight is not None":
                txt = txt.replace(f"if {nm} else", "if sample_weight is not None else")
        return txt

    first_body = None
    first_var = None
    if len(firsts) == 1:
        first_body, first_var = firsts[0].body, src_of(firsts[0].target)
    elif len(fills) == 1:
        # the first iteration written out: `k = start` followed by the absolute stores
        kv0 = src_of(fills[0].target)
        blk = getattr(fills[0], "_parent", init).body if hasattr(getattr(fills[0], "_parent", init), "body") else init.body
        pos = [i_ for i_, x in enumerate(blk) if x is fills[0]]
        if pos:
            before = blk[: pos[0]]
            starts = [i_ for i_, x in enumerate(before) if isinstance(x, ast.Assign) and src_of(x.targets[0]) == kv0 and src_of(x.value) == "start"]
            if starts:
                first_body, first_var = before[starts[-1] + 1 :], kv0
    if len(fills) == 1 and first_body is not None:
        kv = src_of(fills[0].target)
        st = {src_of(s.targets[0]): _subst_flags(src_of(s.value)) for s in fills[0].body if isinstance(s, ast.Assign)}
        f0 = {src_of(s.targets[0]): _subst_flags(src_of(s.value)) for s in first_body if isinstance(s, ast.Assign)}
        firsts = [type("L", (), {"target": ast.Name(id=first_var, ctx=ast.Load())})()]
        terms = {"self.sample_w_left": "w", "self.sample_wy_left": "w * y_", "self.sample_wy2_left": "w * y_ * y_"}
        okf = all(st.get(f"{b}[{kv}]") == f"{b}[{kv} - 1] + {t}" and f0.get(f"{b}[{src_of(firsts[0].target)}]") == t for b, t in terms.items())
        okf = okf and st.get("ks") == f"sample_indices[{kv}]" and st.get("y_") == "y[ks, 0]" and st.get("w") == "sample_weight[ks] if sample_weight is not None else 1.0"
    ck.verdict(okf, "C09.c", None, "cumulative fill S[k] = S[k-1] + term for w, w*y, w*y*y", "the three buffers are running sums of w, w*y, w*y*y in sample order", "the cumulative fill no longer accumulates w, w*y and w*y*y of sample_indices[k] on top of S[k-1]", file=FAST, function=f"{cname}.init_with_X", line=init.lineno)
    # reads
    n_reads = 0
    for mname in ("_mean", "_mse", "_update_weights", "init_with_X"):
        fn = fm.method(cname, mname)
        for s in ast.walk(fn):
            if not isinstance(s, ast.Assign):
                continue
            if any(isinstance(t, ast.Subscript) for t in s.targets):
                continue  # the fill itself
            r = _prefix_read(s.value)
            if r is None or r[0] not in bufs:
                continue
            n_reads += 1
            buf, hi, lo, guarded = r
            tgt = src_of(s.targets[0])
            where = dict(file=FAST, function=f"{cname}.{mname}", line=s.lineno)
            if lo is None:
                # bare S[hi-1]: accepted only as "sum from the node's start", relying on the zero-fill
                ok = zero_ok and ((mname == "_update_weights" and hi in ("end", "new_pos")) or (mname == "init_with_X" and hi == "end"))
                ck.verdict(ok, "C09.c", None, s, f"{tgt} = {buf}[{hi}-1]: sum from the node's start (zero-fill invariant holds)", f"{tgt} reads {buf}[{hi} - 1] without a lower term where the omitted bound is not the node's start, or without the zero-fill it relies on", **where)
            else:
                okp = guarded and (mname != "_update_weights")
                if mname == "_update_weights":
                    okp = lo == "new_pos" and hi == "end"
                    # the unguarded S[new_pos-1] sits in the else branch of `if new_pos == 0`
                    tests = enclosing_tests(s, fn)
                    okp = okp and any(src_of(t) == "new_pos == 0" and not pol for t, pol in tests)
                ck.verdict(okp, "C09.c", None, s, f"{tgt} = {buf}[{hi}-1] - {buf}[{lo}-1] (guarded at 0)", f"{tgt}: prefix-sum read {src_of(s.value)[:80]} is not S[hi-1] - (S[lo-1] if lo > 0 else 0)", **where)
                # which buffer for which quantity
            want = {"m": "self.sample_wy_left", "w": "self.sample_w_left", "squ": "self.sample_wy2_left", "self.weighted_n_left": "self.sample_w_left", "self.weighted_n_right": "self.sample_w_left", "self.weighted_n_node_samples": "self.sample_w_left"}.get(tgt)
            if want is not None:
                ck.verdict(buf == want, "C09.c", None, f"{tgt} <- {buf}", "quantity read from its own cumulative buffer", f"{tgt} is read from {buf}, expected {want}", **where)
            if lo is not None and mname in ("_mean", "_mse"):
                ck.verdict((hi, lo) == ("end", "start"), "C09.c", None, f"{tgt}: range ({lo}, {hi})", "range is the function's (start, end)", f"{tgt} sums ({lo}, {hi}) instead of (start, end)", **where)
    ck.extra["prefix_reads"] = n_reads
    # _mse = squ / weight - mean ** 2
    fn = fm.method(cname, "_mse")
    rets = [src_of(r.value) for r in ast.walk(fn) if isinstance(r, ast.Return) and r.value is not None]
    ck.verdict("0.0 if weight == 0.0 else squ / weight - mean ** 2" in rets, "C09.c", None, f"_mse returns {rets[-1] if rets else None}", "E[y^2] - mean^2 from the cumulative sums", "the fast criterion's impurity is not squ / weight - mean ** 2", file=FAST, function=f"{cname}._mse", line=fn.lineno)
    fn = fm.method(cname, "_mean")
    st = [src_of(s) for s in ast.walk(fn) if isinstance(s, ast.Assign)]
    ck.verdict("mean[0] = 0.0 if w == 0.0 else m / w" in st and "weight[0] = w" in st, "C09.c", None, "_mean: mean = m / w, weight = w", "weighted mean and weight returned", "the fast criterion's mean is not m / w with weight w", file=FAST, function=f"{cname}._mean", line=fn.lineno)


def check_d(ck, repo):
    from .sem import paths
    from engine.util import self_attr_stores

    ci = repo.cls(PY, "PiecewiseTreeRegressor")
    fit, pred = ci.methods.get("fit"), ci.methods.get("predict")
    if fit is None or pred is None:
        raise AnalysisError("anchor vanished: PiecewiseTreeRegressor.fit/predict")
    pX, py_, psw = fit.named_params[1:4]
    configs = [("'mselin'", ast.Constant("mselin"), True), ("'simple'", ast.Constant("simple"), False)]
    for label, val, lin in configs:
        ps = [p for p in paths(fit, {"self.criterion": val}, repo=repo) if not p.raised]
        if not ps:
            ck.unknown("C09.d", fit, f"fit with criterion {label}", "no normal path found by the path evaluation")
            continue
        bad = None
        for p in ps:
            texts = [ast.unparse(c) for c in p.calls]
            tree = [i for i, c in enumerate(p.calls) if isinstance(c.func, ast.Attribute) and c.func.attr == "fit" and ast.unparse(c.func.value) in ("DecisionTreeRegressor", "super()")]
            reg = [i for i, c in enumerate(p.calls) if isinstance(c.func, ast.Attribute) and c.func.attr == "_fit_reglin"]
            where = " and ".join(t if pol else f"not ({t})" for t, pol in p.conds) or "always"
            if len(tree) != 1:
                bad = f"when {where}: the tree itself is fitted {len(tree)} times"
                break
            tc = p.calls[tree[0]]
            targs = [ast.unparse(a) for a in tc.args if not (isinstance(a, ast.Name) and a.id == "self")] + [f"{k.arg}={ast.unparse(k.value)}" for k in tc.keywords]
            if targs[:2] != [pX, py_] or not any(t in (psw, f"sample_weight={psw}") for t in targs[2:]):
                bad = f"when {where}: the tree is trained on ({', '.join(targs)}), not on the caller's {pX}, {py_}, {psw}"
                break
            if lin:
                if len(reg) != 1 or reg[0] < tree[0]:
                    bad = f"when {where}: the per-leaf least-squares fit {'is skipped' if not reg else 'does not follow the tree fit exactly once'}: predictions are not the OLS fit of the leaf's rows"
                    break
                rc = p.calls[reg[0]]
                rargs = [ast.unparse(a) for a in rc.args] + [ast.unparse(k.value) for k in rc.keywords]
                if rargs[:3] != [pX, py_, psw]:
                    bad = f"when {where}: the per-leaf regressions are fitted on ({', '.join(rargs)}), not on the data the tree was trained on"
                    break
            elif reg:
                bad = f"when {where}: per-leaf regressions are fitted although the criterion is {label}"
                break
        ck.verdict(bad is None, "C09.d", fit, f"fit with criterion {label}", "tree fit on the caller's data" + (", then the per-leaf regressions on the same data, on every normal path" if lin else ", no per-leaf regression"), bad or "")
        ps = [p for p in paths(pred, {"self.criterion": val}, repo=repo) if not p.raised]
        pXp = pred.named_params[1]
        bad = None
        for p in ps:
            r = p.ret
            where = " and ".join(t if pol else f"not ({t})" for t, pol in p.conds) or "always"
            ok = False
            if isinstance(r, ast.Call) and isinstance(r.func, ast.Attribute):
                first = [ast.unparse(a) for a in r.args if not (isinstance(a, ast.Name) and a.id == "self")][:1]
                if lin:
                    ok = r.func.attr == "_predict_reglin" and ast.unparse(r.func.value) == "self" and first == [pXp]
                else:
                    ok = r.func.attr == "predict" and ast.unparse(r.func.value) in ("DecisionTreeRegressor", "super()") and first == [pXp]
            if not ok:
                bad = f"when {where}: predict returns `{ast.unparse(r)[:70] if isinstance(r, ast.AST) else r}`, not " + (f"self._predict_reglin({pXp})" if lin else f"the tree's own predict({pXp}) (the leaf mean)")
                break
        if not ps:
            bad = "no normal path"
        ck.verdict(bad is None, "C09.d", pred, f"predict with criterion {label}", "per-leaf linear prediction" if lin else "the tree's leaf mean", bad or "")
    # the tree honours max_depth / min_samples_leaf: nothing but the constructor writes them
    for attr in ("max_depth", "min_samples_leaf"):
        writes = []
        for m in ci.methods.values():
            if m.name in ("__init__", "set_params"):
                continue
            for a, st, tgt in self_attr_stores(m.node):
                if a == attr:
                    writes.append((m, st))
            for c in own_nodes(m.node):
                if isinstance(c, ast.Call) and isinstance(c.func, ast.Attribute) and c.func.attr == "set_params" and any(k.arg == attr for k in c.keywords):
                    writes.append((m, c))
                if isinstance(c, ast.Call) and isinstance(c.func, ast.Name) and c.func.id == "setattr" and len(c.args) >= 2 and isinstance(c.args[1], ast.Constant) and c.args[1].value == attr:
                    writes.append((m, c))
        if writes:
            m, st = writes[0]
            ck.violated("C09.d", m, st, f"self.{attr} is overwritten in {m.name}: the tree is grown with another {attr} than the one the caller configured")
        else:
            ck.holds("C09.d", fit, f"self.{attr} is written by the constructor only", "the tree is grown with the configured value")


def run(ck):
    repo = ck.repo
    for k, v in RULES.items():
        ck.rule(k, v)
    check_a(ck, repo)
    check_d(ck, repo)
    try:
        check_b(ck, repo)
        check_b_state(ck, repo)
        check_c(ck, repo)
        check_e(ck, repo)
    except ImportError as e:
        ck.unknown("C09.b", None, "Cython parser", f"cannot import Cython's parser: {e}", file="-", function="-", line=0)
    from .sem import share_clauses

    share_clauses(ck, "c02", {
        "C02.b": ("C09.f", "the criterion hyper-parameter temporarily replaced by the compiled criterion is restored on every exit of fit, exceptional ones included: the next fit still sees 'mselin' / 'simple'"),
    }, keep=lambda o: o.file.endswith("piecewise_tree_regression.py"))
    ck.assumptions = [
        "Cython's parser yields the tree the compiler would see (no macro expansion is involved in these files)",
        "the analysis says nothing about the built extension binaries (they cannot be built offline here)",
        "Python semantics of the statement kinds used",
    ]
    ck.require_count("C09.a", 7, "co-index, mask, betas row, numbering x2, shape, hstack, dot, predict_leaves, Cython constant feature, nbvar")
    ck.require_count("C09.b", 6, "mean ranges x3, mse triples x3, left/right, update/reset/reverse_reset, improvement")
    ck.require_count("C09.d", 5, "fit and predict under 'mselin' and 'simple'; max_depth, min_samples_leaf")
    ck.require_count("C09.e", 4, "driver dimensions, rcond, right-hand side, residual loop")
    ck.require_count("C09.c", 8, "zero-fill, fill, 8 reads with buffer/range checks, _mse, _mean")


_P = "mlinsights/mlmodel/piecewise_tree_regression.py"
WITNESSES = [
    {"name": "reglin-weights-unselected", "file": _P, "rule": "C09.a", "old": "ws = sample_weight[ind].copy() if sample_weight is not None else None", "new": "ws = sample_weight[: xs.shape[0]].copy() if sample_weight is not None else None"},
    {"name": "reglin-targets-other-mask", "file": _P, "rule": "C09.a", "old": "            ys = y[ind].astype(numpy.float64)\n", "new": "            ys = y[pred_leaves <= i][: xs.shape[0]].astype(numpy.float64)\n"},
    {"name": "reglin-betas-wrong-row", "file": _P, "rule": "C09.a", "old": "dec.node_beta(self.betas_[i, :])", "new": "dec.node_beta(self.betas_[self.leaves_index_[i] % len(self.leaves_index_), :])"},
    {"name": "predict-intercept-first", "file": _P, "rule": "C09.a", "old": "Xone = numpy.hstack([X, pred])", "new": "Xone = numpy.hstack([pred, X])"},
    {"name": "predict-wrong-leaf-row", "file": _P, "rule": "C09.a", "old": "            li = leaves[i]\n", "new": "            li = leaves[0]\n"},
    {"name": "cython-constant-first", "file": LINEAR, "rule": "C09.a", "old": "            for c in range(0, self.nbvar - 1):\n                self.sample_f[idx] = X[ks, c]\n                idx += 1\n            self.sample_f[idx] = 1.\n            idx += 1\n", "new": "            self.sample_f[idx] = 1.\n            idx += 1\n            for c in range(0, self.nbvar - 1):\n                self.sample_f[idx] = X[ks, c]\n                idx += 1\n"},
    {"name": "linear-rcond-positive", "file": LINEAR, "rule": "C09.e", "old": "cdef float64_t rcond = -1", "new": "cdef float64_t rcond = 1e-7"},
    {"name": "linear-rhs-unweighted", "file": LINEAR, "rule": "C09.e", "old": "            pC[i-start] = self.sample_wy[i]\n", "new": "            pC[i-start] = self.sample_y[i]\n"},
    {"name": "common-proxy-weights-to-locals", "file": COMMON, "rule": "C09.b", "old": "        self.children_impurity_weights(&impurity_left, &impurity_right,\n                                       &self.weighted_n_left, &self.weighted_n_right)\n", "new": "        cdef float64_t wl\n        cdef float64_t wr\n        self.children_impurity_weights(&impurity_left, &impurity_right, &wl, &wr)\n"},
    {"name": "common-right-range-from-start", "file": COMMON, "rule": "C09.b", "old": "        self._mean(self.pos, self.end, &mright, weight_right)\n", "new": "        self._mean(self.start, self.end, &mright, weight_right)\n"},
    {"name": "common-mse-wrong-mean", "file": COMMON, "rule": "C09.b", "old": "        impurity_right[0] = self._mse(self.pos, self.end, mright, weight_right[0])\n", "new": "        impurity_right[0] = self._mse(self.pos, self.end, mleft, weight_right[0])\n"},
    {"name": "common-reset-pos-only", "file": COMMON, "rule": "C09.b", "old": "        self._update_weights(self.start, self.end, self.pos, self.start)\n        self.pos = self.start\n", "new": "        self._update_weights(self.start, self.end, self.pos, self.end)\n        self.pos = self.start\n"},
    {"name": "fast-no-zero-fill", "file": FAST, "rule": "C09.c", "old": "        for i in range(0, self.n_samples):\n", "new": "        for i in range(start, end):\n"},
    {"name": "fast-unguarded-lower", "file": FAST, "rule": "C09.c", "old": "(self.sample_wy2_left[start-1] if start > 0 else 0)", "new": "self.sample_wy2_left[start-1]"},
    {"name": "fast-off-by-one-hi", "file": FAST, "rule": "C09.c", "old": "cdef float64_t squ = self.sample_wy2_left[end-1] -", "new": "cdef float64_t squ = self.sample_wy2_left[end] -"},
]
WITNESSES += [
    {"name": "reglin-small-leaf-constant", "file": _P, "rule": "C09.a", "old": "            ys = ys.copy()\n", "new": "            ys = ys.copy()\n            if xs.shape[0] <= xs.shape[1]:\n                self.betas_[i, :-1] = 0\n                self.betas_[i, -1] = ys.mean()\n                continue\n"},
    {"name": "predict-float32-features", "file": _P, "rule": "C09.a", "old": "        leaves = self.predict_leaves(X)\n        pred = numpy.ones((X.shape[0], 1))\n", "new": "        X = self._validate_X_predict(X, check_input)\n        leaves = self.predict_leaves(X)\n        pred = numpy.ones((X.shape[0], 1))\n"},
]
WITNESSES += [
    {"name": "fit-reglin-only-when-split", "file": _P, "rule": "C09.d", "old": '        if self.criterion == "mselin":\n            self._fit_reglin(X, y, sample_weight)\n', "new": '        if self.criterion == "mselin" and self.tree_.node_count > 1:\n            self._fit_reglin(X, y, sample_weight)\n'},
    {"name": "predict-by-hasattr-betas", "file": _P, "rule": "C09.d", "old": '        if self.criterion == "mselin":\n            return self._predict_reglin(X, check_input=check_input)\n', "new": '        if hasattr(self, "betas_"):\n            return self._predict_reglin(X, check_input=check_input)\n'},
    {"name": "fit-reglin-unweighted", "file": _P, "rule": "C09.d", "old": "            self._fit_reglin(X, y, sample_weight)\n", "new": "            self._fit_reglin(X, y, None)\n"},
    {"name": "fit-raises-min-samples-leaf", "file": _P, "rule": "C09.d", "old": "        try:\n            DecisionTreeRegressor.fit(", "new": "        self.min_samples_leaf = max(self.min_samples_leaf, X.shape[1] + 2)\n        try:\n            DecisionTreeRegressor.fit("},
    {"name": "simple-also-fits-reglin", "file": _P, "rule": "C09.d", "old": '        if self.criterion == "mselin":\n            self._fit_reglin(X, y, sample_weight)\n', "new": '        if self.criterion in ("mselin", "simple"):\n            self._fit_reglin(X, y, sample_weight)\n'},
]
TWINS = [
    {"name": "fit-dispatch-on-saved-name", "file": _P, "old": '        if self.criterion == "mselin":\n            self._fit_reglin(X, y, sample_weight)\n', "new": '        if replace == "mselin":\n            self._fit_reglin(X, y, sample_weight)\n'},
    {"name": "predict-dispatch-inverted", "file": _P, "old": '        if self.criterion == "mselin":\n            return self._predict_reglin(X, check_input=check_input)\n        return DecisionTreeRegressor.predict(self, X, check_input=check_input)\n', "new": '        if self.criterion != "mselin":\n            return DecisionTreeRegressor.predict(self, X, check_input=check_input)\n        return self._predict_reglin(X, check_input=check_input)\n'},
    {"name": "reglin-mask-flipped-eq", "file": _P, "old": "            ind = pred_leaves == i\n", "new": "            ind = i == pred_leaves\n"},
]
MIN_WITNESSES = 8
