"""C20 — time-series framing never looks ahead (structural part, for the
configuration the property names: use_all_past=False, delay1 = 1).

  C20.a  affine slice analysis of build_ts_X_y (plain variant), symbols n, past,
         delay1, delay2, i: every right-hand slice has length nrow; lag column i
         reads y[r+i]; target column c reads y[r+c+delay1+past-1], so the first
         target is exactly delay1 after the newest lag, targets are consecutive,
         the largest index read is n-1, every lag index < every target index
         (delay1 >= 1 asserted in BaseTimeSeries.__init__); exogenous rows and
         weights start at past-1, the newest lag
  C20.b  the same_rows variant uses affine-equal right-hand slices and writes
         them at rows [n - nrow:) of arrays numpy.full((n, ..), nan)
  C20.c  ts_mape: both sums are sums of numpy.abs (non-negative); returned values
         are 0, +inf or their ratio; the shifted NaN mask keeps numerator and
         denominator on the same terms; replacing predicted[1:] by expected[:-1]
         turns the numerator into the denominator (naive forecast scores 1)
"""

from __future__ import annotations

import ast
from engine.util import clone_ast
from typing import Dict, List, Optional, Tuple

from engine.src import FunctionInfo, own_nodes, own_nodes_incl_lambda, src_of, AnalysisError
from engine.affine import lin, Lin, LinErr
from engine.util import is_self_attr

RULES = {
    "C20.a": "plain framing: affine proof of slice lengths, lag/target offsets, bounds and alignment of exogenous rows and weights",
    "C20.b": "same_rows framing: right-hand slices affine-equal to the plain variant, written at rows [n - nrow:) of NaN-filled arrays with n rows",
    "C20.c": "ts_mape: non-negative sums, returned values 0 / inf / ratio, consistent NaN masks, naive-forecast substitution gives numerator == denominator",
}

UT = "mlinsights.timeseries.utils"
MT = "mlinsights.timeseries.metrics"
BS = "mlinsights.timeseries.base"

N = Lin.sym("n")
PAST, D1, D2, NCOL = Lin.sym("past"), Lin.sym("d1"), Lin.sym("d2"), Lin.sym("ncol")
BASE_ENV = {
    "y.shape[0]": N,
    "X.shape[0]": N,  # X, when given, has one row per observation
    "model.past": PAST,
    "model.delay1": D1,
    "model.delay2": D2,
    "X.shape[1]": NCOL,
}


def _blocks(fi: FunctionInfo):
    """(plain block, same_rows block) for use_all_past=False"""
    top = [s for s in fi.node.body if isinstance(s, ast.If) and src_of(s.test) == "same_rows"]
    if len(top) != 1:
        raise AnalysisError("build_ts_X_y: `if same_rows:` not found")

    def pick(stmts):
        inner = [s for s in stmts if isinstance(s, ast.If) and src_of(s.test) == "model.use_all_past"]
        if len(inner) != 1 or not inner[0].orelse:
            raise AnalysisError("build_ts_X_y: `if model.use_all_past:` not found")
        return inner[0].orelse

    return pick(top[0].orelse), pick(top[0].body)


def _env(block: List[ast.stmt]) -> Dict[str, Lin]:
    env = dict(BASE_ENV)
    for s in block:
        if isinstance(s, ast.Assign) and len(s.targets) == 1 and isinstance(s.targets[0], ast.Name):
            nm = s.targets[0].id
            if nm == "ncol":
                env["ncol"] = NCOL
                continue
            try:
                env[nm] = lin(s.value, env)
            except LinErr:
                pass
    return env


class Piece:
    def __init__(self, stmt, lhs_rows, lhs_col, rhs_base, lo, hi, loopvar=None, loop_lo=None, loop_hi=None, env=None):
        self.stmt, self.lhs_rows, self.lhs_col, self.rhs_base = stmt, lhs_rows, lhs_col, rhs_base
        self.lo, self.hi, self.loopvar, self.loop_lo, self.loop_hi, self.env = lo, hi, loopvar, loop_lo, loop_hi, env


def _pieces(block, env) -> Dict[str, Piece]:
    out: Dict[str, Piece] = {}

    def rhs_slice(v, e):
        if isinstance(v, ast.Subscript) and isinstance(v.slice, ast.Slice):
            lo = lin(v.slice.lower, e) if v.slice.lower is not None else Lin(0)
            hi = lin(v.slice.upper, e) if v.slice.upper is not None else N
            return src_of(v.value), lo, hi
        return None

    def lhs_parts(t):
        if isinstance(t, ast.Subscript) and isinstance(t.slice, ast.Tuple) and len(t.slice.elts) == 2:
            return src_of(t.value), t.slice.elts[0], t.slice.elts[1]
        return None

    for s in block:
        if isinstance(s, ast.For) and isinstance(s.target, ast.Name) and isinstance(s.iter, ast.Call) and src_of(s.iter.func) == "range":
            iv = s.target.id
            a = s.iter.args
            llo = lin(a[0], env) if len(a) == 2 else Lin(0)
            lhi = lin(a[-1], env)
            e = dict(env)
            e[iv] = Lin.sym("i")
            for b in s.body:
                if isinstance(b, ast.Assign) and len(b.targets) == 1 and isinstance(b.targets[0], ast.Name):
                    try:
                        e[b.targets[0].id] = lin(b.value, e)
                    except LinErr:
                        pass
                elif isinstance(b, ast.Assign) and len(b.targets) == 1:
                    lp = lhs_parts(b.targets[0])
                    rs = rhs_slice(b.value, e)
                    if lp and rs:
                        role = "lags" if lp[0] == "new_X" else ("targets" if lp[0] == "new_y" else None)
                        if role:
                            out[role] = Piece(b, lp[1], lp[2], rs[0], rs[1], rs[2], iv, llo, lhi, e)
        elif isinstance(s, ast.If) and src_of(s.test) == "X is not None":
            for b in s.body:
                if isinstance(b, ast.Assign) and len(b.targets) == 1:
                    lp = lhs_parts(b.targets[0])
                    rs = rhs_slice(b.value, env)
                    if lp and rs and lp[0] == "new_X":
                        out["exog"] = Piece(b, lp[1], lp[2], rs[0], rs[1], rs[2], env=env)
        elif isinstance(s, ast.Assign) and src_of(s.targets[0]) == "new_weights":
            v = s.value
            if isinstance(v, ast.IfExp):
                v = v.orelse if src_of(v.test) == "weights is None" else v.body
            rs = rhs_slice(v, env)
            if rs:
                out["weights"] = Piece(s, None, None, rs[0], rs[1], rs[2], env=env)
            else:
                out["weights"] = Piece(s, None, None, src_of(v), None, None, env=env)
    return out


def _sub(l: Lin, **kw) -> Lin:
    return l.subs({k: (v if isinstance(v, Lin) else Lin(v)) for k, v in kw.items()})


def check_a(ck, repo):
    fi = repo.func(UT, "build_ts_X_y")
    plain, _ = _blocks(fi)
    env = _env(plain)
    nrow = env.get("nrow")
    if nrow is None:
        ck.unknown("C20.a", fi, "nrow = ...", "nrow not found in the plain block")
        return None
    ck.verdict(nrow == N - D2 - PAST + Lin(2), "C20.a", fi, f"nrow = {nrow!r}", "number of rows n - delay2 - past + 2", f"nrow is {nrow!r}, expected n - d2 - past + 2")
    P = _pieces(plain, env)
    for role in ("lags", "targets", "exog", "weights"):
        if role not in P:
            ck.unknown("C20.a", fi, role, f"statement for '{role}' not found in the plain block")
            return None
    I = Lin.sym("i")
    one = {"d1": Lin(1)}
    # lags
    L = P["lags"]
    ck.verdict(L.rhs_base == "y" and L.loop_lo == Lin(0) and L.loop_hi == PAST, "C20.a", fi, f"for {L.loopvar} in range({L.loop_lo!r}, {L.loop_hi!r})", "one lag column per i in range(past), read from the series itself", "lag columns are not built for i in range(past) from y")
    ck.verdict(_sub(L.hi - L.lo - nrow, **one).is_zero(), "C20.a", fi, L.stmt, f"lag slice has nrow elements (length {_sub(L.hi - L.lo, **one)!r})", f"lag slice y[{L.lo!r}:{L.hi!r}] has length {_sub(L.hi - L.lo, **one)!r}, not nrow = {nrow!r}")
    ck.verdict(L.lo == I, "C20.a", fi, f"lag column i starts at y[{L.lo!r}]", "row r, lag column i reads y[r + i]: `past` consecutive values, newest y[r + past - 1]", f"lag column i starts at {L.lo!r} instead of i: lags are not the `past` consecutive values ending at r + past - 1")
    try:
        col = lin(L.lhs_col, L.env)
        ck.verdict(col == I + NCOL, "C20.a", fi, f"lag column index {col!r}", "lag i is stored in column ncol + i (after the exogenous columns)", f"lag i is stored in column {col!r}")
    except LinErr:
        ck.unknown("C20.a", fi, L.stmt, "cannot read the lag column index")
    # targets
    T = P["targets"]
    ck.verdict(T.rhs_base == "y" and T.loop_lo == D1 and T.loop_hi == D2, "C20.a", fi, f"for {T.loopvar} in range({T.loop_lo!r}, {T.loop_hi!r})", "one target column per step in [delay1, delay2)", "target columns are not built for i in range(delay1, delay2) from y")
    ck.verdict((T.hi - T.lo - nrow).is_zero(), "C20.a", fi, T.stmt, "target slice has nrow elements", f"target slice has length {(T.hi - T.lo)!r}, not nrow")
    newest = PAST - Lin(1)
    first_t = _sub(T.lo, i=D1)
    ck.verdict(_sub(first_t - newest - D1, **one).is_zero() and (first_t - newest - D1).is_zero(), "C20.a", fi, f"first target offset {first_t!r}", "the first target lies exactly delay1 steps after the newest lag (r + past - 1 + delay1)", f"first target is y[r + {first_t!r}] while the newest lag is y[r + {newest!r}]: the gap is {(first_t - newest)!r}, not delay1 — targets overlap the lag features or skip a step")
    ck.verdict((T.lo - I).t.get("i", 0) == 0 and T.lo.t.get("i", 0) == 1, "C20.a", fi, f"target offset {T.lo!r}", "consecutive targets (offset grows by one per column)", "targets are not consecutive values")
    last = _sub(T.hi, i=D2 - Lin(1))
    ck.verdict((last - N).is_zero(), "C20.a", fi, f"largest index read: {last!r} - 1", "the last target of the last row is y[n - 1] (no read past the series, none dropped)", f"the last target slice ends at {last!r}, not n")
    try:
        colt = lin(T.lhs_col, T.env)
        ck.verdict(colt == I - D1, "C20.a", fi, f"target column index {colt!r}", "step i is stored in column i - delay1", f"target for step i is stored in column {colt!r}")
    except LinErr:
        ck.unknown("C20.a", fi, T.stmt, "cannot read the target column index")
    # every lag index < every target index: min target - max lag = delay1 >= 1
    gap = first_t - newest
    init = repo.cls(BS, "BaseTimeSeries").methods["__init__"]
    asserts = [src_of(a.test) for a in own_nodes(init.node) if isinstance(a, ast.Assert)]
    ck.verdict(gap == D1 and "self.delay1 >= 1" in asserts and "self.delay2 > self.delay1" in asserts, "C20.a", fi, f"min target - max lag = {gap!r}; asserts {asserts[:2]}", "every lag is strictly older than every target (delay1 >= 1 is asserted by the constructor)", "lags are not provably older than targets (gap is not delay1, or delay1 >= 1 / delay2 > delay1 is no longer asserted)")
    # exogenous rows and weights
    E = P["exog"]
    ck.verdict(E.rhs_base == "X" and E.lo == newest and (E.hi - E.lo - nrow).is_zero(), "C20.a", fi, E.stmt, "exogenous rows start at past - 1 (the newest lag) and there are nrow of them", f"exogenous rows are X[{E.lo!r}:{E.hi!r}]: not aligned with the newest lag (past - 1) or not nrow rows")
    W = P["weights"]
    ok = W.lo is not None and W.rhs_base == "weights" and W.lo == newest and (W.hi - W.lo - nrow).is_zero()
    ck.verdict(ok, "C20.a", fi, W.stmt, "weights start at past - 1 (the newest lag), nrow of them", f"weights are {W.rhs_base}[{W.lo!r}:{W.hi!r}]: not aligned with the newest lag")
    return P, env


def check_b(ck, repo, plainP):
    fi = repo.func(UT, "build_ts_X_y")
    _, same = _blocks(fi)
    env = _env(same)
    nrow, first = env.get("nrow"), env.get("first")
    if nrow is None or first is None:
        ck.unknown("C20.b", fi, "nrow / first", "not found in the same_rows block")
        return
    ck.verdict(nrow == N - D2 - PAST + Lin(2) and first == N - nrow, "C20.b", fi, f"nrow = {nrow!r}; first = {first!r}", "same nrow; first = n - nrow rows of padding", "nrow/first differ from the plain variant's row count")
    P = _pieces(same, env)
    for role in ("lags", "targets", "exog"):
        if role not in P or plainP is None or role not in plainP:
            ck.unknown("C20.b", fi, role, f"statement for '{role}' not found in both variants")
            continue
        a, b = P[role], plainP[role]
        ck.verdict(a.rhs_base == b.rhs_base and a.lo == b.lo and a.hi == b.hi, "C20.b", fi, a.stmt, f"{role}: same right-hand slice as the plain variant", f"{role}: same_rows reads {a.rhs_base}[{a.lo!r}:{a.hi!r}] but the plain variant reads {b.rhs_base}[{b.lo!r}:{b.hi!r}]: the padded table is not the plain table")
        rows = a.lhs_rows
        okr = isinstance(rows, ast.Slice) and rows.upper is None and rows.lower is not None and lin(rows.lower, a.env or env) == first
        ck.verdict(okr, "C20.b", fi, f"{role}: rows {src_of(rows) if rows is not None else None}", "written at rows [n - nrow:)", f"{role} are not written at rows [first:) with first = n - nrow")
        try:
            ck.verdict(lin(a.lhs_col, a.env or env) == lin(b.lhs_col, b.env) if not isinstance(a.lhs_col, ast.Slice) else src_of(a.lhs_col) == src_of(b.lhs_col), "C20.b", fi, f"{role}: column {src_of(a.lhs_col)}", "same columns as the plain variant", f"{role} go to other columns than in the plain variant")
        except LinErr:
            pass
    # weights
    if "weights" in P and plainP is not None and "weights" in plainP:
        a, b = P["weights"], plainP["weights"]
        same_slice = a.lo is not None and a.rhs_base == b.rhs_base and a.lo == b.lo and a.hi == b.hi
        ck.verdict(same_slice, "C20.b", fi, a.stmt, "weights: the plain variant's slice, left-padded", f"same_rows returns `{src_of(a.stmt.value)}` for the weights while the plain variant returns weights[{b.lo!r}:{b.hi!r}]: the weight of padded row first + r is not the weight aligned with its newest lag")
    # allocation: numpy.full((y.shape[0], ...), numpy.nan)
    for nm in ("new_X", "new_y"):
        al = [s for s in same if isinstance(s, ast.Assign) and src_of(s.targets[0]) == nm]
        ok = len(al) == 1 and isinstance(al[0].value, ast.Call) and src_of(al[0].value.func) == "numpy.full" and src_of(al[0].value.args[0]).startswith("(y.shape[0], ") and src_of(al[0].value.args[1]) == "numpy.nan"
        ck.verdict(ok, "C20.b", fi, al[0] if al else f"{nm} = numpy.full((y.shape[0], ..), nan)", f"{nm} has n rows, NaN where no value is available", f"{nm} is not a NaN-filled array with n rows")


def check_c(ck, repo):
    fi = repo.func(MT, "ts_mape")
    asg = {}
    for s in own_nodes(fi.node):
        if isinstance(s, ast.Assign) and len(s.targets) == 1 and isinstance(s.targets[0], ast.Name):
            asg.setdefault(s.targets[0].id, []).append(s)
    def is_abs_sum(v):
        if isinstance(v, ast.Call) and src_of(v.func) == "numpy.sum" and v.args:
            a = v.args[0]
            if isinstance(a, ast.BinOp) and isinstance(a.op, ast.Mult):
                return is_abs(a.left) or is_abs(a.right)
            return is_abs(a)
        return False
    def is_abs(a):
        return isinstance(a, ast.Call) and src_of(a.func) == "numpy.abs"
    for nm in ("dy1", "dy2"):
        defs = [s for s in asg.get(nm, []) if isinstance(s.value, ast.Call) and src_of(s.value.func) == "numpy.sum"]
        ck.verdict(len(defs) == 2 and all(is_abs_sum(s.value) for s in defs), "C20.c", fi, f"{nm} = numpy.sum(numpy.abs(..)[ * w])", f"{nm} is a sum of absolute values (non-negative for non-negative weights)", f"{nm} is not a sum of numpy.abs terms in both the weighted and unweighted branches")
    rets = sorted(src_of(r.value) for r in own_nodes(fi.node) if isinstance(r, ast.Return))
    ck.verdict(rets == sorted(["0 if dy2 == 0 else numpy.inf", "dy2 / dy1"]), "C20.c", fi, f"returns {rets}", "0, +inf, or the ratio of two non-negative sums", f"ts_mape returns {rets}")
    g = [s for s in own_nodes(fi.node) if isinstance(s, ast.If) and src_of(s.test) == "dy1 == 0"]
    ck.verdict(len(g) == 1, "C20.c", fi, "if dy1 == 0", "division guarded", "division by a zero denominator is not guarded")
    # removed NumPy aliases (NumPy 2 is installed): numpy.infty etc.
    bad = [n for n in own_nodes_incl_lambda(fi.node) if isinstance(n, ast.Attribute) and src_of(n) in REMOVED_NUMPY_ALIASES]
    ck.verdict(not bad, "C20.c", fi, bad[0] if bad else "no removed NumPy alias", "constants exist in NumPy 2", f"{src_of(bad[0]) if bad else ''} was removed in NumPy 2.0: this branch raises AttributeError instead of returning")
    # substitution: predicted[1:] -> expected[:-1] makes numerator == denominator
    class Sub(ast.NodeTransformer):
        def visit_Subscript(self, node):
            self.generic_visit(node)
            if src_of(node) == "predicted_y[1:]":
                return ast.parse("expected_y[:-1]", mode="eval").body
            return node
    import copy
    from engine import norm
    num = [s for s in asg.get("dy2", []) if isinstance(s.value, ast.Call) and src_of(s.value.func) == "numpy.sum"]
    den = [s for s in asg.get("dy1", []) if isinstance(s.value, ast.Call) and src_of(s.value.func) == "numpy.sum"]
    if len(num) == 2 and len(den) == 2:
        for a, b in zip(sorted(num, key=lambda s: s.lineno), sorted(den, key=lambda s: s.lineno)):
            na = Sub().visit(clone_ast(a.value))
            same = norm.dump(_abs_sym(na), rename=False) == norm.dump(_abs_sym(b.value), rename=False)
            ck.verdict(same, "C20.c", fi, a, "with the previous value as forecast the numerator is the denominator (score 1)", "replacing the forecast by the previous value does not turn the numerator into the denominator: the naive forecast does not score 1")
    # masks: NaN forecasts masked in expected; forecast masked where it or its predecessor is NaN
    st = [src_of(s) for s in sorted((x for x in own_nodes(fi.node) if isinstance(x, (ast.Assign, ast.AugAssign))), key=lambda x: x.lineno)]
    want = ["mask = numpy.isnan(predicted_y)", "mask2 = mask.copy()", "mask2[1:] |= numpy.isnan(predicted_y[:-1])", "expected_y = numpy.ma.masked_array(expected_y, mask=mask)", "predicted_y = numpy.ma.masked_array(predicted_y, mask=mask2)"]
    ck.verdict([s for s in st if s in want] == want, "C20.c", fi, "NaN masks (plain and shifted)", "a term is dropped from numerator and denominator alike when the forecast or its predecessor is missing", "the NaN masks of numerator and denominator no longer drop the same terms: the naive forecast scores != 1 when forecasts start with NaN padding")


def _abs_sym(e):
    """|a - b| is symmetric: order the operands of a subtraction inside numpy.abs"""
    import copy

    e = clone_ast(e)
    for n in ast.walk(e):
        if isinstance(n, ast.Call) and src_of(n.func) == "numpy.abs" and n.args and isinstance(n.args[0], ast.BinOp) and isinstance(n.args[0].op, ast.Sub):
            b = n.args[0]
            if ast.dump(b.left) > ast.dump(b.right):
                b.left, b.right = b.right, b.left
    return e


REMOVED_NUMPY_ALIASES = {"numpy.infty", "numpy.Inf", "numpy.Infinity", "numpy.PINF", "numpy.NINF", "numpy.NaN", "numpy.float_", "numpy.complex_", "numpy.unicode_", "numpy.PZERO", "numpy.NZERO", "np.infty", "np.Inf", "np.NaN", "np.float_"}


def run(ck):
    repo = ck.repo
    for k, v in RULES.items():
        ck.rule(k, v)
    r = check_a(ck, repo)
    check_b(ck, repo, r[0] if r else None)
    check_c(ck, repo)
    ck.extra["symbols"] = "n = y.shape[0] = X.shape[0]; past, d1, d2 = model.past/delay1/delay2; i = loop variable; facts proved with d1 symbolic where possible, d1 = 1 for slice lengths"
    ck.require_count("C20.a", 7, "nrow, lags x4, targets x6, ordering, exog, weights")
    ck.require_count("C20.b", 6, "nrow/first, 3 roles x (slice, rows, columns), weights, allocations")
    ck.require_count("C20.c", 4, "dy1, dy2, returns, guard, aliases, substitution x2, masks")


_U = "mlinsights/timeseries/utils.py"
_M = "mlinsights/timeseries/metrics.py"
_PLAIN_T = "            for i in range(model.delay1, model.delay2):\n                dec = model.past - 1\n                new_y[:, i - model.delay1] = y[i + dec : i + nrow + dec]\n"
WITNESSES = [
    {"name": "plain-target-overlaps-lag", "file": _U, "rule": "C20.a", "old": _PLAIN_T, "new": "            for i in range(model.delay1, model.delay2):\n                dec = model.past - 2\n                new_y[:, i - model.delay1] = y[i + dec : i + nrow + dec]\n"},
    {"name": "plain-target-offset-by-delay2", "file": _U, "rule": "C20.a", "old": _PLAIN_T, "new": "            for i in range(model.delay1, model.delay2):\n                dec = model.past - (model.delay2 - model.delay1)\n                new_y[:, i - model.delay1] = y[i + dec : i + nrow + dec]\n"},
    {"name": "plain-exog-looks-ahead", "file": _U, "rule": "C20.a", "old": "                new_X[:, : X.shape[1]] = X[\n                    model.past - 1 : X.shape[0] - model.delay2 + 1\n                ]\n            for i in range(model.past):\n                end = y.shape[0] + i + model.delay1 - 1 - model.delay2 - model.past + 2\n                new_X[:, i + ncol] = y[i:end]\n            new_y = numpy.empty", "new": "                new_X[:, : X.shape[1]] = X[\n                    model.past : X.shape[0] - model.delay2 + 2\n                ]\n            for i in range(model.past):\n                end = y.shape[0] + i + model.delay1 - 1 - model.delay2 - model.past + 2\n                new_X[:, i + ncol] = y[i:end]\n            new_y = numpy.empty"},
    {"name": "plain-weights-from-zero", "file": _U, "rule": "C20.a", "old": "                else weights[model.past - 1 : model.past - 1 + nrow]\n            )\n    return", "new": "                else weights[:nrow]\n            )\n    return"},
    {"name": "same-rows-exog-last-target", "file": _U, "rule": "C20.b", "old": "                new_X[first:, : X.shape[1]] = X[\n                    model.past - 1 : X.shape[0] - model.delay2 + 1\n                ]\n", "new": "                new_X[first:, : X.shape[1]] = X[first:]\n"},
    {"name": "same-rows-target-shift", "file": _U, "rule": "C20.b", "old": "                dec = model.past - 1\n                new_y[first:, i - model.delay1] = y[i + dec : i + nrow + dec]\n", "new": "                dec = model.past\n                new_y[first:, i - model.delay1] = y[i + dec - 1 : i + nrow + dec]\n"},
    {"name": "same-rows-pad-at-end", "file": _U, "rule": "C20.b", "old": "                new_X[first:, i + ncol] = y[i:end]\n", "new": "                new_X[:nrow, i + ncol] = y[i:end]\n"},
    {"name": "mape-mask-not-shifted", "file": _M, "rule": "C20.c", "old": "    mask2[1:] |= numpy.isnan(predicted_y[:-1])\n", "new": ""},
    {"name": "mape-signed-numerator", "file": _M, "rule": "C20.c", "old": "        dy2 = numpy.sum(numpy.abs(predicted_y[1:] - expected_y[1:]))\n", "new": "        dy2 = numpy.sum(predicted_y[1:] - expected_y[1:])\n"},
    {"name": "mape-numerator-unshifted", "file": _M, "rule": "C20.c", "old": "        dy2 = numpy.sum(numpy.abs(predicted_y[1:] - expected_y[1:]))\n", "new": "        dy2 = numpy.sum(numpy.abs(predicted_y[:-1] - expected_y[1:]))\n"},
    {"name": "mape-removed-alias", "file": _M, "rule": "C20.c", "old": "numpy.inf", "new": "numpy.infty"},
]
TWINS = [
    {"name": "plain-end-simplified", "file": _U, "old": "                end = y.shape[0] + i + model.delay1 - 1 - model.delay2 - model.past + 2\n                new_X[:, i + ncol] = y[i:end]\n            new_y = numpy.empty", "new": "                end = i + nrow + model.delay1 - 1\n                new_X[:, i + ncol] = y[i:end]\n            new_y = numpy.empty"},
]
MIN_WITNESSES = 9
