"""C20 — time-series framing never looks ahead (structural part, for the
configuration the property names: use_all_past=False, delay1 = 1).

  C20.a  affine slice analysis of build_ts_X_y (plain variant), symbols n, past,
         delay1, delay2, i: every right-hand slice has length nrow; lag column i
         reads y[r+i]; target column c reads y[r+c+delay1+past-1], so the first
         target is exactly delay1 after the newest lag, targets are consecutive,
         the largest index read is n-1, every lag index < every target index
         (delay1 >= 1 asserted in BaseTimeSeries.__init__); exogenous rows and
         weights start at past-1, the newest lag
  C20.b  the same_rows variant uses affine-equal right-hand slices and writes
         them at rows [n - nrow:) of arrays numpy.full((n, ..), nan)
  C20.c  ts_mape: both sums are sums of numpy.abs (non-negative); returned values
         are 0, +inf or their ratio; the shifted NaN mask keeps numerator and
         denominator on the same terms; replacing predicted[1:] by expected[:-1]
         turns the numerator into the denominator (naive forecast scores 1)
"""

from __future__ import annotations

import ast
from engine.util import clone_ast
from typing import Dict, List, Optional, Tuple

from engine.src import FunctionInfo, own_nodes, own_nodes_incl_lambda, src_of, AnalysisError
from engine.affine import lin, Lin, LinErr
from engine.util import is_self_attr, kwarg
from .sem import ctext, paths, split_ifexp, consistent, inline_helpers, complement_norm, truth_of, RAISE, expander, stmt_of

RULES = {
    "C20.a": "plain framing: affine proof of slice lengths, lag/target offsets, bounds and alignment of exogenous rows and weights",
    "C20.b": "same_rows framing: right-hand slices affine-equal to the plain variant, written at rows [n - nrow:) of NaN-filled arrays with n rows",
    "C20.c": "ts_mape: non-negative sums, returned values 0 / inf / ratio, consistent NaN masks, naive-forecast substitution gives numerator == denominator",
}

UT = "mlinsights.timeseries.utils"
MT = "mlinsights.timeseries.metrics"
BS = "mlinsights.timeseries.base"

N = Lin.sym("n")
PAST, D1, D2, NCOL = Lin.sym("past"), Lin.sym("d1"), Lin.sym("d2"), Lin.sym("ncol")
BASE_ENV = {
    "y.shape[0]": N,
    "X.shape[0]": N,  # X, when given, has one row per observation
    "model.past": PAST,
    "model.delay1": D1,
    "model.delay2": D2,
    "X.shape[1]": NCOL,
}


def _t(x) -> str:
    return ast.unparse(x) if isinstance(x, ast.AST) else str(x)


class Piece:
    def __init__(self, stmt, lhs_rows, lhs_col, rhs_base, lo, hi, loop=None, loop_lo=None, loop_hi=None):
        self.stmt, self.lhs_rows, self.lhs_col, self.rhs_base = stmt, lhs_rows, lhs_col, rhs_base
        self.col_shift = None
        self.lo, self.hi, self.loop, self.loop_lo, self.loop_hi = lo, hi, loop, loop_lo, loop_hi

    def col_lin(self, L):
        """column index as a linear form in the (re-based) loop variable"""
        c = L(self.lhs_col)
        return c.subs({"i": Lin.sym("i") + self.col_shift}) if self.col_shift is not None else c


def _outputs(fi: FunctionInfo) -> Tuple[str, str, str]:
    names = set()
    for r in own_nodes(fi.node):
        if isinstance(r, ast.Return) and isinstance(r.value, ast.Tuple) and len(r.value.elts) == 3 and all(isinstance(e, ast.Name) for e in r.value.elts):
            names.add(tuple(e.id for e in r.value.elts))
    if len(names) != 1:
        raise AnalysisError("build_ts_X_y: the returned triple (features, targets, weights) was not found")
    return next(iter(names))


def _frame(repo, fi: FunctionInfo, same_rows: bool, x_given: bool):
    """the framing for use_all_past=False: {'lags','targets','exog','weights'} pieces
    (linear forms), the row count of the allocations, the padding row"""
    pm, pX, py_, pw, psame = fi.named_params[:5]
    b = {psame: same_rows, f"{pm}.use_all_past": False, pw: ast.Name(id=f"{pw}__set", ctx=ast.Load())}
    b[pX] = ast.Name(id=f"{pX}__set", ctx=ast.Load()) if x_given else None
    ps = [p for p in split_ifexp(paths(fi, b, repo)) if p.ret != RAISE and consistent(p.conds)]
    if len(ps) != 1:
        raise AnalysisError(f"build_ts_X_y: {len(ps)} paths for same_rows={same_rows}, use_all_past=False")
    p = ps[0]
    oX, oy, ow = _outputs(fi)
    sym = {f"{py_}.shape[0]": N, f"{pX}__set.shape[0]": N, f"{pm}.past": PAST, f"{pm}.delay1": D1, f"{pm}.delay2": D2, f"{pX}__set.shape[1]": NCOL}
    loops = {l.lineno: l for l in own_nodes(fi.node) if isinstance(l, ast.For) and isinstance(l.target, ast.Name)}
    for ln, l in loops.items():
        sym[f"{l.target.id}__L{ln}"] = Lin.sym("i")

    class _ShapeOfAlloc(ast.NodeTransformer):
        """numpy.empty((R, C), ..).shape[k] -> R or C (the table was just allocated with these sizes)"""

        def visit_Subscript(self, n):
            self.generic_visit(n)
            if isinstance(n.value, ast.Attribute) and n.value.attr == "shape" and isinstance(n.slice, ast.Constant) and isinstance(n.slice.value, int):
                v = n.value.value
                if isinstance(v, ast.Call) and _t(v.func) in ("numpy.empty", "numpy.zeros", "numpy.full", "numpy.ones") and v.args and isinstance(v.args[0], ast.Tuple) and n.slice.value < len(v.args[0].elts):
                    return v.args[0].elts[n.slice.value]
            return n

    def L(e):
        return lin(_ShapeOfAlloc().visit(clone_ast(e)), sym)

    pieces: Dict[str, Piece] = {}
    for key, val in p.named_stores.items():
        try:
            k = ast.parse(key, mode="eval").body
        except SyntaxError:
            continue
        if not (isinstance(k, ast.Subscript) and isinstance(k.value, ast.Name) and k.value.id in (oX, oy) and isinstance(k.slice, ast.Tuple) and len(k.slice.elts) == 2):
            continue
        if not (isinstance(val, ast.Subscript) and isinstance(val.slice, ast.Slice)):
            continue
        base = _t(val.value)
        lo = L(val.slice.lower) if val.slice.lower is not None else Lin(0)
        hi = L(val.slice.upper) if val.slice.upper is not None else N
        rows, col = k.slice.elts
        loop = None
        for n_ in ast.walk(k):
            if isinstance(n_, ast.Name) and "__L" in n_.id:
                loop = loops.get(int(n_.id.rsplit("__L", 1)[1]))
        for n_ in ast.walk(val):
            if isinstance(n_, ast.Name) and "__L" in n_.id:
                loop = loop or loops.get(int(n_.id.rsplit("__L", 1)[1]))
        llo = lhi = None
        if loop is not None:
            a = loop.iter.args if isinstance(loop.iter, ast.Call) and _t(loop.iter.func) == "range" else []
            if a:
                llo = L(PathSub(p.env, a[0])) if len(a) >= 2 else Lin(0)
                lhi = L(PathSub(p.env, a[-1] if len(a) <= 2 else a[1]))
        role = "targets" if k.value.id == oy else ("lags" if base == py_ else ("exog" if base == f"{pX}__set" else None))
        if role:
            # a loop over range(A, B) is read from its canonical start (delay1 for the targets, 0 for
            # the lags): i = i' + (A - start), so that `for k in range(B - A)` and `for i in range(A, B)`
            # describe the same columns and slices
            start = D1 if role == "targets" else Lin(0)
            if loop is not None and llo is not None and lhi is not None and role in ("targets", "lags") and llo != start:
                shift = llo - start
                sh = {"i": Lin.sym("i") + shift}
                lo, hi = lo.subs(sh), hi.subs(sh)
                piece_col_shift = shift
                llo, lhi = start, lhi - shift
            else:
                piece_col_shift = None
            pc = Piece(p.origin.get(key), rows, col, base, lo, hi, loop, llo, lhi)
            pc.col_shift = piece_col_shift
            pieces[role] = pc
    w = p.ret.elts[2] if isinstance(p.ret, ast.Tuple) and len(p.ret.elts) == 3 else None
    wst = p.origin.get(ow)
    if isinstance(w, ast.Subscript) and isinstance(w.slice, ast.Slice):
        pieces["weights"] = Piece(wst, None, None, _t(w.value), L(w.slice.lower) if w.slice.lower is not None else Lin(0), L(w.slice.upper) if w.slice.upper is not None else N)
    elif w is not None:
        pieces["weights"] = Piece(wst, None, None, _t(w), None, None)
    alloc = {}
    for nm in (oX, oy):
        v = p.env.get(nm)
        alloc[nm] = v
    return p, pieces, alloc, L, (oX, oy, ow), (pm, pX, py_, pw)


def PathSub(env, e):
    from engine.patheval import _Sub

    return complement_norm(_Sub(env).visit(clone_ast(e)))


def _rows_of_alloc(v, L):
    """(row count as a linear form, constructor, fill) of numpy.empty((rows, ..)) / numpy.full((rows, ..), fill)"""
    if isinstance(v, ast.Call) and _t(v.func) in ("numpy.empty", "numpy.zeros", "numpy.full") and v.args and isinstance(v.args[0], ast.Tuple) and v.args[0].elts:
        fill = _t(v.args[1]) if _t(v.func) == "numpy.full" and len(v.args) > 1 else None
        try:
            return L(v.args[0].elts[0]), _t(v.func), fill
        except LinErr:
            return None, _t(v.func), fill
    return None, None, None


def _dtype_ok(ck, rule, fi, p, alloc, names, py_, label):
    """the tables are allocated with the dtype of the series (or float64): the
    lag features and targets are the series' own values, not a cast of them"""
    for nm in names:
        v = alloc.get(nm)
        if not isinstance(v, ast.Call):
            continue
        dt = [k.value for k in v.keywords if k.arg == "dtype"]
        if not dt and _t(v.func) == "numpy.full" and len(v.args) > 2:
            dt = [v.args[2]]
        if not dt and _t(v.func) in ("numpy.empty", "numpy.zeros") and len(v.args) > 1:
            dt = [v.args[1]]
        txt = _t(dt[0]).replace("__set", "") if dt else "float64 (default)"
        ok = not dt or txt in (f"{py_}.dtype", "numpy.float64", "float", "'float64'", "numpy.double")
        ck.verdict(ok, rule, fi, p.origin.get(nm) or f"{nm} allocation", f"{label}: {nm} holds the series' values unchanged (dtype {txt})", f"{label}: {nm} is allocated with dtype={txt}, not the dtype of the series {py_}: lag features / targets are cast (rounded or truncated) instead of being the series' values, and the plain and same_rows tables no longer agree")


def check_a(ck, repo):
    fi = repo.func(UT, "build_ts_X_y")
    try:
        p, P, alloc, L, outs, prm = _frame(repo, fi, False, True)
        p0, P0, alloc0, L0, _, _ = _frame(repo, fi, False, False)
    except (AnalysisError, LinErr) as e:
        ck.unknown("C20.a", fi, "plain framing", f"cannot follow the framing: {e}")
        return None
    oX, oy, ow = outs
    want_rows = N - D2 - PAST + Lin(2)
    nrow, _, _ = _rows_of_alloc(alloc.get(oX), L)
    nrow_y, _, _ = _rows_of_alloc(alloc.get(oy), L)
    ck.verdict(nrow is not None and nrow == want_rows and nrow_y == want_rows, "C20.a", fi, f"rows allocated = {nrow!r}", "number of rows n - delay2 - past + 2", f"the tables have {nrow!r} / {nrow_y!r} rows, expected n - d2 - past + 2")
    _dtype_ok(ck, "C20.a", fi, p, alloc, (oX, oy), prm[2], "plain variant, X given")
    _dtype_ok(ck, "C20.a", fi, p0, alloc0, (oX, oy), prm[2], "plain variant, X absent")
    nrow = want_rows
    for role in ("lags", "targets", "exog", "weights"):
        if role not in P:
            ck.unknown("C20.a", fi, role, f"store for '{role}' not found in the plain framing")
            return None
    I = Lin.sym("i")
    one = {"d1": Lin(1)}
    Lg = P["lags"]
    ck.verdict(Lg.loop_lo == Lin(0) and Lg.loop_hi == PAST, "C20.a", fi, f"lags: for i in range({Lg.loop_lo!r}, {Lg.loop_hi!r})", "one lag column per i in range(past), read from the series itself", "lag columns are not built for i in range(past) from y")
    ck.verdict(_sub(Lg.hi - Lg.lo - nrow, **one).is_zero(), "C20.a", fi, Lg.stmt if Lg.stmt is not None else "lag slice", f"lag slice has nrow elements (length {_sub(Lg.hi - Lg.lo, **one)!r})", f"lag slice y[{Lg.lo!r}:{Lg.hi!r}] has length {_sub(Lg.hi - Lg.lo, **one)!r}, not nrow = {nrow!r}")
    ck.verdict(Lg.lo == I, "C20.a", fi, f"lag column i starts at y[{Lg.lo!r}]", "row r, lag column i reads y[r + i]: `past` consecutive values, newest y[r + past - 1]", f"lag column i starts at {Lg.lo!r} instead of i: lags are not the `past` consecutive values ending at r + past - 1")
    try:
        col = Lg.col_lin(L)
        ck.verdict(col == I + NCOL, "C20.a", fi, f"lag column index {col!r}", "lag i is stored in column ncol + i (after the exogenous columns)", f"lag i is stored in column {col!r}")
        col0 = P0["lags"].col_lin(L0) if "lags" in P0 else None
        ck.verdict(col0 == I, "C20.a", fi, f"lag column index without exogenous features {col0!r}", "without exogenous features lag i is column i", f"without exogenous features lag i is stored in column {col0!r}")
    except LinErr:
        ck.unknown("C20.a", fi, "lag column index", "cannot read the lag column index")
    T = P["targets"]
    ck.verdict(T.rhs_base == prm[2] and T.loop_lo == D1 and T.loop_hi == D2, "C20.a", fi, f"targets: for i in range({T.loop_lo!r}, {T.loop_hi!r})", "one target column per step in [delay1, delay2)", "target columns are not built for i in range(delay1, delay2) from y")
    ck.verdict((T.hi - T.lo - nrow).is_zero(), "C20.a", fi, T.stmt if T.stmt is not None else "target slice", "target slice has nrow elements", f"target slice has length {(T.hi - T.lo)!r}, not nrow")
    newest = PAST - Lin(1)
    first_t = _sub(T.lo, i=D1)
    ck.verdict((first_t - newest - D1).is_zero(), "C20.a", fi, f"first target offset {first_t!r}", "the first target lies exactly delay1 steps after the newest lag (r + past - 1 + delay1)", f"first target is y[r + {first_t!r}] while the newest lag is y[r + {newest!r}]: the gap is {(first_t - newest)!r}, not delay1 — targets overlap the lag features or skip a step")
    ck.verdict(T.lo.t.get("i", 0) == 1, "C20.a", fi, f"target offset {T.lo!r}", "consecutive targets (offset grows by one per column)", "targets are not consecutive values")
    last = _sub(T.hi, i=D2 - Lin(1))
    ck.verdict((last - N).is_zero(), "C20.a", fi, f"largest index read: {last!r} - 1", "the last target of the last row is y[n - 1] (no read past the series, none dropped)", f"the last target slice ends at {last!r}, not n")
    try:
        colt = T.col_lin(L)
        ck.verdict(colt == I - D1, "C20.a", fi, f"target column index {colt!r}", "step i is stored in column i - delay1", f"target for step i is stored in column {colt!r}")
    except LinErr:
        ck.unknown("C20.a", fi, "target column index", "cannot read the target column index")
    gap = first_t - newest
    init = repo.cls(BS, "BaseTimeSeries").methods["__init__"]
    asserts = [ctext(src_of(a.test)) for a in own_nodes(init.node) if isinstance(a, ast.Assert)]
    ck.verdict(gap == D1 and ctext("self.delay1 >= 1") in asserts and ctext("self.delay2 > self.delay1") in asserts, "C20.a", fi, f"min target - max lag = {gap!r}; asserts {asserts[:2]}", "every lag is strictly older than every target (delay1 >= 1 is asserted by the constructor)", "lags are not provably older than targets (gap is not delay1, or delay1 >= 1 / delay2 > delay1 is no longer asserted)")
    E = P["exog"]
    ck.verdict(E.lo == newest and (E.hi - E.lo - nrow).is_zero(), "C20.a", fi, E.stmt if E.stmt is not None else "exogenous rows", "exogenous rows start at past - 1 (the newest lag) and there are nrow of them", f"exogenous rows are X[{E.lo!r}:{E.hi!r}]: not aligned with the newest lag (past - 1) or not nrow rows")
    W = P["weights"]
    ok = W.lo is not None and W.rhs_base == f"{prm[3]}__set" and W.lo == newest and (W.hi - W.lo - nrow).is_zero()
    ck.verdict(ok, "C20.a", fi, W.stmt if W.stmt is not None else "weights", "weights start at past - 1 (the newest lag), nrow of them", f"weights are {W.rhs_base}[{W.lo!r}:{W.hi!r}]: not aligned with the newest lag")
    # weights absent stay absent
    pm, pX, py_, pw = prm
    pn = [q for q in split_ifexp(paths(fi, {fi.named_params[4]: False, f"{pm}.use_all_past": False, pw: None}, repo)) if q.ret != RAISE and consistent(q.conds)]
    ck.verdict(bool(pn) and all(isinstance(q.ret, ast.Tuple) and _t(q.ret.elts[2]) == "None" for q in pn), "C20.a", fi, "weights=None -> None", "no weights in, no weights out", "weights=None does not stay None")
    return P, nrow


def check_b(ck, repo, plainP):
    fi = repo.func(UT, "build_ts_X_y")
    try:
        p, P, alloc, L, outs, prm = _frame(repo, fi, True, True)
    except (AnalysisError, LinErr) as e:
        ck.unknown("C20.b", fi, "same_rows framing", f"cannot follow the framing: {e}")
        return
    oX, oy, ow = outs
    nrow = N - D2 - PAST + Lin(2)
    first = N - nrow
    for nm in (oX, oy):
        rows, ctor, fill = _rows_of_alloc(alloc.get(nm), L)
        ck.verdict(rows is not None and rows == N and ctor == "numpy.full" and fill == "numpy.nan", "C20.b", fi, p.origin.get(nm) or f"{nm} = numpy.full((n, ..), nan)", f"{nm} has n rows, NaN where no value is available", f"{nm} is not a NaN-filled array with n rows")
    _dtype_ok(ck, "C20.b", fi, p, alloc, (oX, oy), prm[2], "same_rows variant")
    for role in ("lags", "targets", "exog"):
        if role not in P or plainP is None or role not in plainP:
            ck.unknown("C20.b", fi, role, f"store for '{role}' not found in both variants")
            continue
        a, b = P[role], plainP[role]
        ck.verdict(a.rhs_base == b.rhs_base and a.lo == b.lo and a.hi == b.hi, "C20.b", fi, a.stmt if a.stmt is not None else role, f"{role}: same right-hand slice as the plain variant", f"{role}: same_rows reads {a.rhs_base}[{a.lo!r}:{a.hi!r}] but the plain variant reads {b.rhs_base}[{b.lo!r}:{b.hi!r}]: the padded table is not the plain table")
        rows = a.lhs_rows
        try:
            okr = isinstance(rows, ast.Slice) and rows.upper is None and rows.lower is not None and L(rows.lower) == first
        except LinErr:
            okr = False
        ck.verdict(okr, "C20.b", fi, f"{role}: rows {_t(rows) if rows is not None else None}", "written at rows [n - nrow:)", f"{role} are not written at rows [first:) with first = n - nrow")
        try:
            if isinstance(a.lhs_col, ast.Slice) or isinstance(b.lhs_col, ast.Slice):
                okc = _t(a.lhs_col) == _t(b.lhs_col)
            else:
                okc = a.col_lin(L) == b.col_lin(L)
            ck.verdict(okc, "C20.b", fi, f"{role}: column {_t(a.lhs_col)}", "same columns as the plain variant", f"{role} go to other columns than in the plain variant")
        except LinErr:
            pass
    if "weights" in P and plainP is not None and "weights" in plainP:
        a, b = P["weights"], plainP["weights"]
        same_slice = a.lo is not None and a.rhs_base == b.rhs_base and a.lo == b.lo and a.hi == b.hi
        shown = src_of(a.stmt.value) if isinstance(a.stmt, ast.Assign) else a.rhs_base
        ck.verdict(same_slice, "C20.b", fi, a.stmt if a.stmt is not None else "weights", "weights: the plain variant's slice, left-padded", f"same_rows returns `{shown}` for the weights while the plain variant returns weights[{b.lo!r}:{b.hi!r}]: the weight of padded row first + r is not the weight aligned with its newest lag")


def _sub(l: Lin, **kw) -> Lin:
    return l.subs({k: (v if isinstance(v, Lin) else Lin(v)) for k, v in kw.items()})


def check_c(ck, repo):
    fi = repo.func(MT, "ts_mape")
    from engine.patheval import PathEval

    pe_, pp_, pw = fi.named_params[:3]
    res = {}
    for given in (False, True):
        b = {pw: (ast.Name(id=f"{pw}__set", ctx=ast.Load()) if given else ast.Constant(None))}
        pe = PathEval(fi.node, b, post=lambda x: complement_norm(inline_helpers(repo, fi, x)))
        ps = [p for p in split_ifexp(pe.run()) if p.ret != RAISE and consistent(p.conds)]
        res[given] = ps
    E = f"numpy.ma.masked_array(numpy.squeeze({pe_}), mask=numpy.isnan(numpy.squeeze({pp_})))"
    for given, ps in res.items():
        cfg = f"[weights {'given' if given else 'None'}]"
        if not ps:
            ck.unknown("C20.c", fi, f"ts_mape {cfg}", "no path")
            continue
        rets = {}
        num = den = None
        for p in ps:
            # the two sums, as they stand before the final .sum()
            rt = p.ret
            rets[p.ret_text()] = p
        ratio = [p for t, p in rets.items() if isinstance(p.ret, ast.BinOp) and isinstance(p.ret.op, ast.Div)]
        zero = [p for t, p in rets.items() if t == "0"]
        inf = [p for t, p in rets.items() if t in ("numpy.inf", "float('inf')", "math.inf")]
        ck.verdict(len(ratio) == 1 and len(zero) == 1 and len(inf) == 1 and len(rets) == 3, "C20.c", fi, f"{cfg} returns {sorted(t[:30] for t in rets)}", "0, +inf, or the ratio of two non-negative sums", f"{cfg} ts_mape returns {sorted(t[:60] for t in rets)}")
        if len(ratio) != 1:
            continue
        r = ratio[0].ret
        N_, D_ = _strip_sum(r.left), _strip_sum(r.right)
        w = f" * {pw}__set[1:]" if given else ""
        ok_abs = all(_is_abs_sum(x) for x in (N_, D_))
        ck.verdict(ok_abs, "C20.c", fi, f"{cfg} numerator / denominator", "both are sums of absolute values (non-negative for non-negative weights)", f"{cfg} numerator or denominator is not a sum of numpy.abs terms: {_t(N_)[:80]} / {_t(D_)[:80]}")
        # guards: 0 when both vanish, inf when only the denominator does
        dz = ctext(f"{_t(r.right)} == 0")
        nz = ctext(f"{_t(r.left)} == 0")
        okg = truth_of(ratio[0].conds, dz) is False and zero and truth_of(zero[0].conds, dz) is True and truth_of(zero[0].conds, nz) is True and inf and truth_of(inf[0].conds, dz) is True and truth_of(inf[0].conds, nz) is False
        ck.verdict(bool(okg), "C20.c", fi, f"{cfg} division guarded", "the ratio is only formed for a non-zero denominator; 0/0 -> 0, x/0 -> inf", f"{cfg} division by a zero denominator is not guarded (or the 0 / inf cases are exchanged)")
        # masks: a term is dropped from both sums when the forecast or its predecessor is missing
        PM = None
        for n_ in ast.walk(N_):
            if isinstance(n_, ast.Call) and _t(n_.func) == "numpy.ma.masked_array" and _t(n_.args[0]) == f"numpy.squeeze({pp_})":
                PM = n_
        okm = False
        if PM is not None:
            mk = next((k.value for k in PM.keywords if k.arg == "mask"), None)
            # the mask variable is updated in place: its construction is read from the path's stores
            okm = mk is not None and _t(mk) == f"numpy.isnan(numpy.squeeze({pp_})).copy()"
            upd = [(k, v) for k, v in ratio[0].named_stores.items() if k.endswith("[1:]")]
            # isnan is element-wise: isnan(A[:-1]) and isnan(A)[:-1] are the same mask
            okm = okm and len(upd) == 1 and isinstance(upd[0][1], ast.BinOp) and isinstance(upd[0][1].op, ast.BitOr) and _t(upd[0][1].right) in (f"numpy.isnan(numpy.squeeze({pp_})[:-1])", f"numpy.isnan(numpy.squeeze({pp_}))[:-1]")
            okm = okm and E in _t(N_) and E in _t(D_)
        ck.verdict(okm, "C20.c", fi, f"{cfg} NaN masks (plain and shifted)", "a term is dropped from numerator and denominator alike when the forecast or its predecessor is missing", "the NaN masks of numerator and denominator no longer drop the same terms: the naive forecast scores != 1 when forecasts start with NaN padding")
        # substitution: forecast = previous value turns the numerator into the denominator
        if PM is not None:
            pm_t = _t(PM)

            class Sub(ast.NodeTransformer):
                def visit_Subscript(s_, node):
                    s_.generic_visit(node)
                    if _t(node.value) == pm_t and _t(node.slice) == "1:":
                        return ast.parse(f"({E})[:-1]", mode="eval").body
                    return node

            from engine import norm

            na = Sub().visit(clone_ast(N_))
            same = norm.dump(_abs_sym(na), rename=False) == norm.dump(_abs_sym(clone_ast(D_)), rename=False)
            ck.verdict(same, "C20.c", fi, f"{cfg} naive forecast", "with the previous value as forecast the numerator is the denominator (score 1)", "replacing the forecast by the previous value does not turn the numerator into the denominator: the naive forecast does not score 1")
    bad = [n for n in own_nodes_incl_lambda(fi.node) if isinstance(n, ast.Attribute) and src_of(n) in REMOVED_NUMPY_ALIASES]
    ck.verdict(not bad, "C20.c", fi, bad[0] if bad else "no removed NumPy alias", "constants exist in NumPy 2", f"{src_of(bad[0]) if bad else ''} was removed in NumPy 2.0: this branch raises AttributeError instead of returning")


def _strip_sum(x: ast.AST) -> ast.AST:
    """x.sum() of an already summed scalar is the scalar"""
    while isinstance(x, ast.Call) and isinstance(x.func, ast.Attribute) and x.func.attr == "sum" and not x.args:
        x = x.func.value
    return x


def _is_abs_sum(v: ast.AST) -> bool:
    if isinstance(v, ast.Call) and _t(v.func) == "numpy.sum" and v.args:
        a = v.args[0]
        if isinstance(a, ast.BinOp) and isinstance(a.op, ast.Mult):
            return _is_abs(a.left) or _is_abs(a.right)
        return _is_abs(a)
    return False


def _is_abs(a: ast.AST) -> bool:
    return isinstance(a, ast.Call) and _t(a.func) in ("numpy.abs", "numpy.absolute", "abs")


def _abs_sym(e):
    """|a - b| is symmetric: order the operands of a subtraction inside numpy.abs"""
    import copy

    e = clone_ast(e)
    for n in ast.walk(e):
        if isinstance(n, ast.Call) and src_of(n.func) == "numpy.abs" and n.args and isinstance(n.args[0], ast.BinOp) and isinstance(n.args[0].op, ast.Sub):
            b = n.args[0]
            if ast.dump(b.left) > ast.dump(b.right):
                b.left, b.right = b.right, b.left
    return e


REMOVED_NUMPY_ALIASES = {"numpy.infty", "numpy.Inf", "numpy.Infinity", "numpy.PINF", "numpy.NINF", "numpy.NaN", "numpy.float_", "numpy.complex_", "numpy.unicode_", "numpy.PZERO", "numpy.NZERO", "np.infty", "np.Inf", "np.NaN", "np.float_"}


def check_strided(ck, repo):
    """windows built with as_strided step through memory, not through elements: the steps
    must be the array's own strides (a column of a table or every second point of a record is
    a 1-D array whose consecutive elements are not itemsize bytes apart)"""
    fi = repo.func(UT, "build_ts_X_y")
    ex = expander(repo)
    for fn in [fi] + [f for f in repo.modules[UT].functions.values() if f is not fi]:
        for c in own_nodes(fn.node):
            if not (isinstance(c, ast.Call) and src_of(c.func).split(".")[-1] == "as_strided"):
                continue
            st = stmt_of(c)
            arr = c.args[0] if c.args else kwarg(c, "x")
            strides = kwarg(c, "strides") or (c.args[2] if len(c.args) > 2 else None)
            if arr is None or strides is None:
                ck.unknown("C20.a", fn, c, "as_strided without explicit strides")
                continue
            t = ex.text(strides, fn, st)
            a = ex.text(arr, fn, st)
            if ".itemsize" in t and ".strides" not in t:
                ck.violated("C20.a", fn, c, f"the windows over {a} step by {t[:80]} bytes, the size of an item, not by {a}.strides: for a series that is a strided view (a column of a 2-D table, every k-th point of a record) the lag columns are read from the memory between the observations, not from the `past` consecutive earlier values")
            elif f"{a}.strides" in t and ".itemsize" not in t:
                ck.holds("C20.a", fn, c, f"window steps are {a}.strides")
            else:
                ck.unknown("C20.a", fn, c, f"window steps {t[:80]} are not recognisably the strides of {a}")


def run(ck):
    repo = ck.repo
    for k, v in RULES.items():
        ck.rule(k, v)
    r = check_a(ck, repo)
    check_b(ck, repo, r[0] if r else None)
    check_c(ck, repo)
    check_strided(ck, repo)
    from .sem import share_clauses

    share_clauses(ck, "c02", {
        "C02.c": ("C20.d", "the table builders and their callers never write into the caller's X, y or weights: a second table built from the same arrays (the compact one after the padded one) carries the same values"),
    }, keep=lambda o: o.file.startswith("mlinsights/timeseries/"))
    ck.extra["symbols"] = "n = y.shape[0] = X.shape[0]; past, d1, d2 = model.past/delay1/delay2; i = loop variable; facts proved with d1 symbolic where possible, d1 = 1 for slice lengths"
    ck.require_count("C20.a", 7, "nrow, lags x4, targets x6, ordering, exog, weights")
    ck.require_count("C20.b", 6, "nrow/first, 3 roles x (slice, rows, columns), weights, allocations")
    ck.require_count("C20.c", 4, "dy1, dy2, returns, guard, aliases, substitution x2, masks")


_U = "mlinsights/timeseries/utils.py"
_M = "mlinsights/timeseries/metrics.py"
_PLAIN_T = "            for i in range(model.delay1, model.delay2):\n                dec = model.past - 1\n                new_y[:, i - model.delay1] = y[i + dec : i + nrow + dec]\n"
WITNESSES = [
    {"name": "plain-lags-by-itemsize-windows", "file": _U, "rule": "C20.a", "old": "            for i in range(model.past):\n                end = y.shape[0] + i + model.delay1 - 1 - model.delay2 - model.past + 2\n                new_X[:, i + ncol] = y[i:end]\n", "new": "            new_X[:, ncol:] = numpy.lib.stride_tricks.as_strided(y, shape=(nrow, model.past), strides=(y.dtype.itemsize, y.dtype.itemsize))\n"},
    {"name": "plain-target-overlaps-lag", "file": _U, "rule": "C20.a", "old": _PLAIN_T, "new": "            for i in range(model.delay1, model.delay2):\n                dec = model.past - 2\n                new_y[:, i - model.delay1] = y[i + dec : i + nrow + dec]\n"},
    {"name": "plain-target-offset-by-delay2", "file": _U, "rule": "C20.a", "old": _PLAIN_T, "new": "            for i in range(model.delay1, model.delay2):\n                dec = model.past - (model.delay2 - model.delay1)\n                new_y[:, i - model.delay1] = y[i + dec : i + nrow + dec]\n"},
    {"name": "plain-table-dtype-of-exog", "file": _U, "rule": "C20.a", "old": "            new_X = numpy.empty((nrow, ncol + model.past), dtype=y.dtype)\n", "new": "            new_X = numpy.empty((nrow, ncol + model.past), dtype=X.dtype if X is not None else y.dtype)\n"},
    {"name": "same-rows-table-float32", "file": _U, "rule": "C20.b", "old": "            new_X = numpy.full(\n                (y.shape[0], ncol + model.past), numpy.nan, dtype=y.dtype\n            )\n", "new": "            new_X = numpy.full(\n                (y.shape[0], ncol + model.past), numpy.nan, dtype=numpy.float32\n            )\n"},
    {"name": "plain-exog-looks-ahead", "file": _U, "rule": "C20.a", "old": "                new_X[:, : X.shape[1]] = X[\n                    model.past - 1 : X.shape[0] - model.delay2 + 1\n                ]\n            for i in range(model.past):\n                end = y.shape[0] + i + model.delay1 - 1 - model.delay2 - model.past + 2\n                new_X[:, i + ncol] = y[i:end]\n            new_y = numpy.empty", "new": "                new_X[:, : X.shape[1]] = X[\n                    model.past : X.shape[0] - model.delay2 + 2\n                ]\n            for i in range(model.past):\n                end = y.shape[0] + i + model.delay1 - 1 - model.delay2 - model.past + 2\n                new_X[:, i + ncol] = y[i:end]\n            new_y = numpy.empty"},
    {"name": "plain-weights-from-zero", "file": _U, "rule": "C20.a", "old": "                else weights[model.past - 1 : model.past - 1 + nrow]\n            )\n    return", "new": "                else weights[:nrow]\n            )\n    return"},
    {"name": "same-rows-exog-last-target", "file": _U, "rule": "C20.b", "old": "                new_X[first:, : X.shape[1]] = X[\n                    model.past - 1 : X.shape[0] - model.delay2 + 1\n                ]\n", "new": "                new_X[first:, : X.shape[1]] = X[first:]\n"},
    {"name": "same-rows-target-shift", "file": _U, "rule": "C20.b", "old": "                dec = model.past - 1\n                new_y[first:, i - model.delay1] = y[i + dec : i + nrow + dec]\n", "new": "                dec = model.past\n                new_y[first:, i - model.delay1] = y[i + dec - 1 : i + nrow + dec]\n"},
    {"name": "same-rows-pad-at-end", "file": _U, "rule": "C20.b", "old": "                new_X[first:, i + ncol] = y[i:end]\n", "new": "                new_X[:nrow, i + ncol] = y[i:end]\n"},
    {"name": "mape-mask-not-shifted", "file": _M, "rule": "C20.c", "old": "    mask2[1:] |= numpy.isnan(predicted_y[:-1])\n", "new": ""},
    {"name": "mape-signed-numerator", "file": _M, "rule": "C20.c", "old": "        dy2 = numpy.sum(numpy.abs(predicted_y[1:] - expected_y[1:]))\n", "new": "        dy2 = numpy.sum(predicted_y[1:] - expected_y[1:])\n"},
    {"name": "mape-numerator-unshifted", "file": _M, "rule": "C20.c", "old": "        dy2 = numpy.sum(numpy.abs(predicted_y[1:] - expected_y[1:]))\n", "new": "        dy2 = numpy.sum(numpy.abs(predicted_y[:-1] - expected_y[1:]))\n"},
    {"name": "mape-removed-alias", "file": _M, "rule": "C20.c", "old": "numpy.inf", "new": "numpy.infty"},
]
# witnesses of the rules added after the ninth round of independent changes
WITNESSES += [
    {"name": "padded-weights-zeroed-in-place", "file": _U, "rule": "C20.d", "old": "                new_y[first:, i - model.delay1] = y[i + 1 : i + nrow + 1]\n\n            new_weights = weights\n", "new": "                new_y[first:, i - model.delay1] = y[i + 1 : i + nrow + 1]\n\n            new_weights = weights\n            if new_weights is not None:\n                new_weights[:first] = 0\n"},
]


TWINS = [
    {"name": "plain-end-simplified", "file": _U, "old": "                end = y.shape[0] + i + model.delay1 - 1 - model.delay2 - model.past + 2\n                new_X[:, i + ncol] = y[i:end]\n            new_y = numpy.empty", "new": "                end = i + nrow + model.delay1 - 1\n                new_X[:, i + ncol] = y[i:end]\n            new_y = numpy.empty"},
]
MIN_WITNESSES = 9
