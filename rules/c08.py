"""C08 — piecewise estimators: a partition by the binner, one local model per
bucket.

  C08.a  co-indexing at fit: X, y, sample_weight handed to the local model are
         selected by the same value of the mask, which is `association == i`
         for the task's own i (before and after the class-borrowing block)
  C08.b  one clone per mapping entry; task i gets estimators[i] and bucket id i;
         the fallback model is a clone fitted on all rows; rows not covered by
         any bucket go to getattr(self.mean_estimator_, <same method name>)
  C08.c  gather/scatter pairing at predict time (as C04.a, on this file)
  C08.d  no object shared by all delayed() tasks is mutated inside a task
  C08.e  one bucket-key encoding at fit (_mapping_train) and predict
         (transform_bins); unknown keys map to -1 in both
"""

from __future__ import annotations

import ast
from typing import Dict, List, Optional, Set

from engine.src import FunctionInfo, own_nodes, own_nodes_incl_lambda, src_of, AnalysisError
from engine.util import is_self_attr, kwarg, const_value, enclosing_stmt, names_in
from engine.norm import same_modulo_names
from .common import resolve_call
from .pairing_rules import check_coindex, check_scatter, check_retpair, check_tuple_scatter, pairing
from .c02 import effects_for

RULES = {
    "C08.a": "features, targets and weights given to a bucket's model are gathered with the same mask value; the mask is association == i for the task's own i",
    "C08.b": "one clone per bucket, task i trains estimators[i] on bucket i; fallback = clone fitted on all rows; uncovered rows use the fallback's method of the same name",
    "C08.c": "gather/scatter pairing of per-bucket predictions",
    "C08.d": "arguments shared by all delayed() tasks (loop-invariant) are never written by the task (write summaries, generator draws included)",
    "C08.e": "bucket keys are built by structurally equal expressions at fit and predict; unknown -> -1 in both",
}

MOD = "mlinsights.mlmodel.piecewise_estimator"


def check_a(ck, repo):
    fi = repo.func(MOD, "_fit_piecewise_estimator")
    n = check_coindex(ck, "C08.a", repo, fi, methods={"fit"}, min_args=3)
    if n == 0:
        ck.violated("C08.a", fi, "model.fit(Xi, yi, sample_weight=sw)", "the local model is no longer fitted on mask-selected X, y, sample_weight: rows, targets and weights of a bucket are not kept together")
    # the mask is association == <task id parameter>
    params = fi.named_params
    first = params[0] if params else None
    defs = [s for s in own_nodes(fi.node) if isinstance(s, ast.Assign) and len(s.targets) == 1 and isinstance(s.targets[0], ast.Name) and s.targets[0].id == "ind"]
    defs.sort(key=lambda s: s.lineno)
    if not defs:
        ck.unknown("C08.a", fi, "ind = association == i", "mask definition not found")
    else:
        d = defs[0]
        ok = isinstance(d.value, ast.Compare) and len(d.value.ops) == 1 and isinstance(d.value.ops[0], ast.Eq) and {src_of(d.value.left), src_of(d.value.comparators[0])} == {"association", first}
        ck.verdict(ok, "C08.a", fi, d, f"bucket mask selects association == {first} (the task's own bucket id)", f"the mask is {src_of(d.value)}, not association == {first}: the model of bucket {first} is trained on other rows")
        for d2 in defs[1:]:
            ok2 = src_of(d2.value) in ("ind.copy()", "numpy.array(ind)", "numpy.copy(ind)")
            ck.verdict(ok2, "C08.a", fi, d2, "borrowing block works on a copy of the mask", "the mask is rebound to something else than a copy of itself before examples are borrowed")
    # weights are optional: sw is either the gathered weights or None
    # the call fits `model` (the clone handed to the task)
    fits = [c for c in own_nodes_incl_lambda(fi.node) if isinstance(c, ast.Call) and isinstance(c.func, ast.Attribute) and c.func.attr == "fit"]
    for c in fits:
        ck.verdict(isinstance(c.func.value, ast.Name) and c.func.value.id == params[1], "C08.a", fi, f"{src_of(c.func)}(...)", "the estimator handed to the task is the one fitted", "the task fits another object than the clone it was given")
        sw = kwarg(c, "sample_weight")
        ck.verdict(sw is not None or len(c.args) >= 3, "C08.a", fi, f"sample_weight={src_of(sw) if sw is not None else None}", "bucket weights are forwarded", "sample weights are not forwarded to the bucket's model")


def _parallel_sites(fi: FunctionInfo):
    """[(call Parallel(..)(gen), gen, inner call delayed(f)(args), f expr)]"""
    out = []
    for c in own_nodes_incl_lambda(fi.node):
        if isinstance(c, ast.Call) and isinstance(c.func, ast.Call) and src_of(c.func.func).split(".")[-1] == "Parallel" and c.args and isinstance(c.args[0], ast.GeneratorExp):
            gen = c.args[0]
            e = gen.elt
            if isinstance(e, ast.Call) and isinstance(e.func, ast.Call) and src_of(e.func.func) == "delayed" and e.func.args:
                out.append((c, gen, e, e.func.args[0]))
    return out


def check_b(ck, repo):
    ci = repo.cls(MOD, "PiecewiseEstimator")
    fit = ci.methods["fit"]
    # one clone per mapping entry
    est = [s for s in own_nodes(fit.node) if isinstance(s, ast.Assign) and len(s.targets) == 1 and src_of(s.targets[0]) == "estimators"]
    if len(est) != 1:
        ck.unknown("C08.b", fit, "estimators = [...]", "definition of the per-bucket estimators not found")
    else:
        v = est[0].value
        ok = isinstance(v, ast.ListComp) and src_of(v.elt) == "clone(self.estimator)" and len(v.generators) == 1 and src_of(v.generators[0].iter) in ("self.mapping_", "range(len(self.mapping_))", "self.mapping_.values()", "self.mapping_.keys()", "self.mapping_.items()") and not v.generators[0].ifs
        ck.verdict(ok, "C08.b", fit, est[0], "one clone of the local estimator per bucket of the mapping", "the list of local models is not one clone per mapping entry")
    sites = _parallel_sites(fit)
    if len(sites) != 1:
        ck.unknown("C08.b", fit, "Parallel(...)(delayed(_fit_piecewise_estimator)(...))", f"{len(sites)} parallel sites in fit")
    else:
        c, gen, inner, f = sites[0]
        lv = src_of(gen.generators[0].target)
        it = gen.generators[0].iter
        a = [src_of(x) for x in inner.args]
        ck.verdict(src_of(f) == "_fit_piecewise_estimator", "C08.b", fit, f"delayed({src_of(f)})", "tasks run _fit_piecewise_estimator", "tasks run another function")
        ck.verdict(len(a) >= 2 and a[0] == lv and a[1] == f"estimators[{lv}]", "C08.b", fit, f"task args ({', '.join(a[:2])}, ...)", f"task {lv} trains estimators[{lv}] on bucket {lv}", "the estimator handed to a task does not have the index of the bucket it is trained on")
        # the loop covers range(len(estimators))
        loop_src = None
        if isinstance(it, ast.Name):
            for s in own_nodes(fit.node):
                if isinstance(s, ast.Assign) and len(s.targets) == 1 and src_of(s.targets[0]) == it.id:
                    loop_src = s.value
        else:
            loop_src = it
        ranges = [src_of(x) for x in ast.walk(loop_src) if isinstance(x, ast.Call) and src_of(x.func) == "range"] if loop_src is not None else []
        ck.verdict(bool(ranges) and all(r == "range(len(estimators))" for r in ranges), "C08.b", fit, f"loop over {ranges}", "every bucket gets a task", "the task loop does not cover range(len(estimators)): some buckets are never trained")
        # data arguments forwarded in the callee's order
        callee = repo.func(MOD, "_fit_piecewise_estimator")
        ps = callee.named_params
        pairs = dict(zip(ps, a))
        ok = pairs.get("X") == "X" and pairs.get("y") == "y" and pairs.get("sample_weight") == "sample_weight" and pairs.get("association") == "association"
        ck.verdict(ok, "C08.b", fit, inner, "X, y, sample_weight, association forwarded to their own parameters", f"task arguments {a} do not line up with parameters {ps}")
        # result stored as estimators_
        st = enclosing_stmt(c)
        ck.verdict(isinstance(st, ast.Assign) and any(is_self_attr(t, "estimators_") for t in st.targets), "C08.b", fit, "self.estimators_ = Parallel(...)", "fitted local models stored in bucket order", "the fitted local models are not stored as estimators_")
    # fallback
    fb = [s for s in own_nodes(fit.node) if isinstance(s, ast.Assign) and any(is_self_attr(t, "mean_estimator_") for t in s.targets)]
    if len(fb) != 1:
        ck.unknown("C08.b", fit, "self.mean_estimator_ = ...", "fallback model not found")
    else:
        v = fb[0].value
        ok = isinstance(v, ast.Call) and isinstance(v.func, ast.Attribute) and v.func.attr == "fit" and src_of(v.func.value) == "clone(self.estimator)" and [src_of(x) for x in v.args[:2]] == ["X", "y"]
        ck.verdict(ok, "C08.b", fit, fb[0], "fallback is a clone of the local estimator fitted on all rows", "the fallback model is not clone(self.estimator).fit(X, y, ...) on the whole training set")
    # the binner
    bn = [s for s in own_nodes(fit.node) if isinstance(s, ast.Assign) and len(s.targets) == 1 and src_of(s.targets[0]) == "binner"]
    ck.verdict(len(bn) == 1 and src_of(bn[0].value) == "clone(self.binner)", "C08.b", fit, bn[0] if bn else "binner = clone(self.binner)", "the binner is a clone fitted in fit", "the binner fitted is not a clone of the hyper-parameter")
    mt = [s for s in own_nodes(fit.node) if isinstance(s, ast.Assign) and isinstance(s.value, ast.Call) and src_of(s.value.func) == "self._mapping_train"]
    if mt:
        a = [src_of(x) for x in mt[0].value.args]
        t = [src_of(x) for x in (mt[0].targets[0].elts if isinstance(mt[0].targets[0], ast.Tuple) else [mt[0].targets[0]])]
        ck.verdict(a == ["X", "self.binner_"] and t == ["association", "self.mapping_", "self.leaves_"], "C08.b", fit, mt[0], "buckets computed on the training rows with the fitted binner", "bucket mapping is not computed from (X, self.binner_) into (association, mapping_, leaves_)")
    # predict side
    ap = ci.methods["_apply_predict_method"]
    sites = _parallel_sites(ap)
    if len(sites) != 1:
        ck.unknown("C08.b", ap, "Parallel(...)(delayed(parallelized)(...))", f"{len(sites)} parallel sites")
    else:
        c, gen, inner, f = sites[0]
        g = gen.generators[0]
        ok = src_of(g.iter) == "enumerate(self.estimators_)" and isinstance(g.target, ast.Tuple) and len(g.target.elts) == 2
        a = [src_of(x) for x in inner.args]
        if ok:
            i, m = [src_of(x) for x in g.target.elts]
            ck.verdict(a[:2] == [i, m] and a[2:4] == ["X", "association"], "C08.b", ap, inner, "bucket i is predicted by estimators_[i]", f"prediction task arguments {a} do not pair bucket id and model of the same position")
        else:
            ck.violated("C08.b", ap, inner, "prediction tasks do not enumerate self.estimators_")
    rets = [src_of(r.value) for r in own_nodes(ap.node) if isinstance(r, ast.Return)]
    ck.verdict(rets == ["pred"], "C08.b", ap, f"returns {rets}", "the only value returned is the array the per-bucket results were scattered into", f"_apply_predict_method returns {rets}: some path bypasses the per-bucket scatter and the fallback for rows whose bucket was empty at training time (bucket id -1)")
    assoc = [s for s in own_nodes(ap.node) if isinstance(s, ast.Assign) and src_of(s.targets[0]) == "association"]
    ck.verdict(len(assoc) == 1 and src_of(assoc[0].value) == "self.transform_bins(X)", "C08.b", ap, assoc[0] if assoc else "association = self.transform_bins(X)", "rows are routed by transform_bins", "rows are not routed by transform_bins(X)")
    ga = [c for c in own_nodes_incl_lambda(ap.node) if isinstance(c, ast.Call) and src_of(c.func) == "getattr"]
    okm = any(len(c.args) == 2 and src_of(c.args[0]) == "self.mean_estimator_" and src_of(c.args[1]) == "method" for c in ga)
    ck.verdict(okm, "C08.b", ap, "getattr(self.mean_estimator_, method)", "uncovered rows use the fallback's method of the same name", "uncovered rows are not sent to getattr(self.mean_estimator_, method)")
    # public methods pass their own name and the matching worker
    table = {"predict": "_predict_piecewise_estimator", "predict_proba": "_predict_proba_piecewise_estimator", "decision_function": "_decision_function_piecewise_estimator"}
    for cname in ("PiecewiseRegressor", "PiecewiseClassifier"):
        cc = repo.cls(MOD, cname)
        for mname, m in cc.methods.items():
            if mname in table:
                nd = [c for c in own_nodes_incl_lambda(m.node) if isinstance(c, ast.Call) and src_of(c.func) == "self._apply_predict_method"]
                if not nd:
                    ck.violated("C08.b", m, f"{cname}.{mname}", f"{cname}.{mname} does not dispatch '{mname}' to the bucket models through _apply_predict_method: the output for a row is no longer its bucket's model's {mname}")
                    continue
                # the returned value must come from that call
                rets = [r for r in own_nodes(m.node) if isinstance(r, ast.Return)]
                okr = True
                for r in rets:
                    v = r.value
                    if isinstance(v, ast.Call) and (v is nd[0] or (isinstance(v.func, ast.Attribute) and v.func.attr == "astype" and isinstance(v.func.value, ast.Name))):
                        if v is nd[0]:
                            continue
                        nm = v.func.value.id
                        defs = [x for x in own_nodes(m.node) if isinstance(x, ast.Assign) and src_of(x.targets[0]) == nm]
                        if len(defs) == 1 and defs[0].value is nd[0]:
                            continue
                    okr = False
                ck.verdict(okr, "C08.b", m, f"{cname}.{mname}: return value", "the value returned is the dispatch result (at most re-typed)", f"{cname}.{mname} does not return the result of the per-bucket dispatch")
            for c in own_nodes_incl_lambda(m.node):
                if isinstance(c, ast.Call) and src_of(c.func) == "self._apply_predict_method":
                    a = c.args
                    name = const_value(a[1]) if len(a) > 1 else None
                    worker = src_of(a[2]) if len(a) > 2 else None
                    ck.verdict(name == mname and table.get(mname) == worker, "C08.b", m, c, f"{cname}.{mname} dispatches method '{name}' to {worker}", f"{cname}.{mname} asks for method {name!r} with worker {worker}: names disagree")
    for mname, wname in table.items():
        w = repo.func(MOD, wname)
        calls = [c for c in own_nodes_incl_lambda(w.node) if isinstance(c, ast.Call) and isinstance(c.func, ast.Attribute) and c.func.attr in table]
        ck.verdict(len(calls) == 1 and calls[0].func.attr == mname and src_of(calls[0].func.value) == w.named_params[1], "C08.b", w, calls[0] if calls else wname, f"worker calls est.{mname}", f"worker {wname} does not call the bucket model's {mname}")


def check_c(ck, repo):
    mi = repo.modules[MOD]
    n = 0
    for fi in repo.functions_of(mi):
        n += check_scatter(ck, "C08.c", repo, fi)
        n += check_retpair(ck, "C08.c", repo, fi)
        n += check_tuple_scatter(ck, "C08.c", repo, fi)
    return n


def check_d(ck, repo):
    eff = effects_for(repo)
    n = 0
    for fi in repo.all_functions.values():
        if not fi.module.name.startswith("mlinsights.mlmodel"):
            continue
        for c, gen, inner, f in _parallel_sites(fi):
            fake = ast.Call(func=f, args=inner.args, keywords=inner.keywords)
            ast.copy_location(fake, inner)
            callees = []
            callee = resolve_call(repo, fi, fake)
            if callee is not None:
                callees = [callee]
            elif isinstance(f, ast.Name):
                # function-valued parameter: every repository function passed for it
                for g in repo.all_functions.values():
                    for cc in own_nodes_incl_lambda(g.node):
                        if isinstance(cc, ast.Call) and resolve_call(repo, g, cc) is fi:
                            b = eff._bind(cc, fi, g)
                            if f.id in b and isinstance(b[f.id], ast.Name):
                                tgt = repo.resolve_name(g.module, b[f.id].id)
                                h = repo.get_function(tgt) if tgt else None
                                if h is not None and h not in callees:
                                    callees.append(h)
            if not callees:
                ck.unknown("C08.d", fi, inner, "cannot resolve the task function")
                continue
            loopvars = set()
            for g in gen.generators:
                loopvars |= names_in(g.target)
            for callee in callees:
                s = eff.summaries.get(callee.qualname)
                binding = eff._bind(fake, callee, fi)
                for p, e in binding.items():
                    n += 1
                    shared = not (names_in(e) & loopvars)
                    if not shared and isinstance(e, ast.Subscript) and isinstance(e.value, ast.Name):
                        # seeds[i] where every element of `seeds` is one and the same object
                        se = _shared_element(fi, e.value.id)
                        if se is not None:
                            shared = True
                            e = se
                    w = s.writes.get(p) if s else None
                    label = f"{callee.name}({p}={src_of(e)[:30]})"
                    if not shared:
                        ck.holds("C08.d", fi, label, "per-task argument (depends on the task index)", nontrivial=False)
                    elif w:
                        ck.violated("C08.d", fi, label, f"'{src_of(e)}' is the same object for every task and the task writes it ({w}): with n_jobs > 1 the result depends on the thread schedule")
                    else:
                        ck.holds("C08.d", fi, label, "shared argument is only read by the task")
    return n


def _shared_element(fi: FunctionInfo, name: str):
    """if some definition of list `name` puts the SAME non-constant object in
    every position ([obj for _ in ...] or [obj] * n), return that element
    expression."""
    for s in own_nodes(fi.node):
        if isinstance(s, ast.Assign) and any(isinstance(t, ast.Name) and t.id == name for t in s.targets):
            v = s.value
            if isinstance(v, ast.ListComp):
                cv = set()
                for g in v.generators:
                    cv |= names_in(g.target)
                if not (names_in(v.elt) & cv) and not isinstance(v.elt, ast.Constant) and not isinstance(v.elt, ast.Call):
                    return v.elt
            if isinstance(v, ast.BinOp) and isinstance(v.op, ast.Mult) and isinstance(v.left, ast.List) and len(v.left.elts) == 1 and not isinstance(v.left.elts[0], (ast.Constant, ast.Call)):
                return v.left.elts[0]
    return None


LOSSY_REDUCERS = {"argmax", "argmin", "max", "min", "sum", "mean", "any", "all", "count_nonzero", "first", "nonzero"}


def check_e(ck, repo):
    ci = repo.cls(MOD, "PiecewiseEstimator")
    mt, tb = ci.methods["_mapping_train"], ci.methods["transform_bins"]

    def branch(fn, attr):
        for s in own_nodes(fn.node):
            if isinstance(s, ast.If) and isinstance(s.test, ast.Call) and src_of(s.test.func) == "hasattr" and len(s.test.args) == 2 and const_value(s.test.args[1]) == attr:
                return s
        return None

    # tree branch: same mask expression, same densification
    for attr, what in (("tree_", "tree"), ("transform", "transformer")):
        b1, b2 = branch(mt, attr), branch(tb, attr)
        if b1 is None or b2 is None:
            ck.unknown("C08.e", mt, f"hasattr(binner, '{attr}')", "binner-kind branch not found in both functions")
            continue
        if what == "tree":
            k1 = [s for s in ast.walk(ast.Module(body=b1.body, type_ignores=[])) if isinstance(s, ast.Assign) and src_of(s.targets[0]) == "ind"]
            k2 = [s for s in ast.walk(ast.Module(body=b2.body, type_ignores=[])) if isinstance(s, ast.Assign) and src_of(s.targets[0]) == "ind"]
            same = [src_of(s.value) for s in k1] == [src_of(s.value) for s in k2] and len(k1) >= 1
            ck.verdict(same, "C08.e", tb, f"ind = {[src_of(s.value) for s in k2]}", "leaf membership is decided by the same expressions at fit and predict", f"fit selects a leaf's rows with {[src_of(s.value) for s in k1]} but predict with {[src_of(s.value) for s in k2]}")
            # fit iterates over leaves, predict over self.leaves_; mapping key is the leaf id j
            l1 = [x for x in ast.walk(ast.Module(body=b1.body, type_ignores=[])) if isinstance(x, ast.For) and src_of(x.iter) == "leaves"]
            l2 = [x for x in ast.walk(ast.Module(body=b2.body, type_ignores=[])) if isinstance(x, ast.For) and src_of(x.iter) == "self.leaves_"]
            ck.verdict(len(l1) == 1 and len(l2) == 1 and src_of(l1[0].target) == src_of(l2[0].target), "C08.e", tb, "for j in leaves / self.leaves_", "both sides enumerate the fitted tree's leaves", "fit and predict do not enumerate the same leaf list")
            if l1 and l2:
                j = src_of(l1[0].target)
                st1 = [src_of(s) for s in ast.walk(l1[0]) if isinstance(s, ast.Assign)]
                st2 = [src_of(s) for s in ast.walk(l2[0]) if isinstance(s, ast.Assign)]
                ck.verdict(f"mapping[{j}] = ntree" in st1 and "association[ind] = ntree" in st1, "C08.e", mt, f"mapping[{j}] = ntree; association[ind] = ntree", "fit stores bucket id under the leaf id and labels the leaf's rows with it", "fit does not store the bucket id under the leaf id it labels rows with")
                ck.verdict(f"association[ind] = self.mapping_.get({j}, -1)" in st2, "C08.e", tb, f"association[ind] = self.mapping_.get({j}, -1)", "predict looks the leaf id up in the same mapping, unknown -> -1", "predict does not look up mapping_.get(leaf id, -1)")
                inc = any(isinstance(s, ast.AugAssign) and src_of(s) == "ntree += 1" for s in ast.walk(l1[0]))
                ck.verdict(inc, "C08.e", mt, "ntree += 1", "bucket ids are consecutive", "bucket ids are not incremented per non-empty leaf")
            # decision path from the fitted binner on the given rows
            d1 = [src_of(s.value) for s in ast.walk(ast.Module(body=b1.body, type_ignores=[])) if isinstance(s, ast.Assign) and src_of(s.targets[0]) == "dec_path"]
            d2 = [src_of(s.value) for s in ast.walk(ast.Module(body=b2.body, type_ignores=[])) if isinstance(s, ast.Assign) and src_of(s.targets[0]) == "dec_path"]
            ck.verdict(d1 == d2 == ["self.binner_.decision_path(X)"], "C08.e", tb, f"dec_path = {d2}", "both use the fitted binner's decision path of the rows at hand", f"decision paths differ: {d1} vs {d2}")
        else:
            def keys(b):
                return [src_of(s.value) for s in ast.walk(ast.Module(body=b.body, type_ignores=[])) if isinstance(s, ast.Assign) and src_of(s.targets[0]) == "d"]
            k1, k2 = keys(b1), keys(b2)
            ck.verdict(len(k1) >= 1 and len(k2) >= 1 and set(k1) == set(k2) and len(set(k1)) == 1, "C08.e", tb, f"d = {sorted(set(k2))}", "bucket keys of the transformer binner are built by one expression everywhere", f"fit builds keys with {sorted(set(k1))}, predict with {sorted(set(k2))}: no row finds its bucket")
            # the key must encode the whole transformed row (injective): no reducer keeps one position only
            for b in (b1, b2):
                for s_ in ast.walk(ast.Module(body=b.body, type_ignores=[])):
                    if isinstance(s_, ast.Assign) and src_of(s_.targets[0]) == "d":
                        red = [c for c in ast.walk(s_.value) if isinstance(c, ast.Call) and src_of(c.func).split(".")[-1] in LOSSY_REDUCERS]
                        sub1 = [x for x in ast.walk(s_.value) if isinstance(x, ast.Subscript) and isinstance(x.slice, ast.Constant)]
                        ck.verdict(not red and not sub1, "C08.e", mt if b is b1 else tb, s_, "bucket key keeps every entry of the binner's output row", f"the bucket key {src_of(s_.value)[:60]!r} reduces the binner's output row to one number: distinct discretizer cells share a bucket, so rows are not routed to exactly their own cell's model")
            g1 = [src_of(s) for s in ast.walk(ast.Module(body=b1.body, type_ignores=[])) if isinstance(s, ast.Assign) and "mapping.get(" in src_of(s)]
            g2 = [src_of(s) for s in ast.walk(ast.Module(body=b2.body, type_ignores=[])) if isinstance(s, ast.Assign) and "mapping_.get(" in src_of(s)]
            ck.verdict(g1 == ["association[i] = mapping.get(d, -1)"] and g2 == ["association[i] = self.mapping_.get(d, -1)"], "C08.e", tb, f"{g2}", "row i gets the bucket of its own key, unknown -> -1, on both sides", f"key lookup differs or does not default to -1: {g1} / {g2}")
            t1 = [src_of(s.value) for s in ast.walk(ast.Module(body=b1.body, type_ignores=[])) if isinstance(s, ast.Assign) and src_of(s.targets[0]) == "tr"]
            t2 = [src_of(s.value) for s in ast.walk(ast.Module(body=b2.body, type_ignores=[])) if isinstance(s, ast.Assign) and src_of(s.targets[0]) == "tr"]
            ck.verdict(t1 == t2 == ["binner.transform(X)"], "C08.e", tb, f"tr = {t2}", "both transform the rows at hand with the fitted binner", f"transforms differ: {t1} vs {t2}")
    # default -1 initialisation in every branch
    for fn in (mt, tb):
        inits = [src_of(s) for s in own_nodes(fn.node) if isinstance(s, ast.Assign) and src_of(s.targets[0]) == "association[:]"]
        ck.verdict(len(inits) == 2 and all(x == "association[:] = -1" for x in inits), "C08.e", fn, f"{inits}", "rows start unassigned (-1) in both binner kinds", "association is not initialised to -1 in both branches: uncovered rows get a bucket id")
    # leaf predicate shared with mltree (two confirmed forms)
    lp = [c for c in own_nodes_incl_lambda(mt.node) if isinstance(c, ast.ListComp) and "children_left" in src_of(c)]
    ok = len(lp) == 1 and src_of(lp[0].generators[0].ifs[0]) in ("tree.children_left[i] <= i and tree.children_right[i] <= i", "tree.children_left[i] == TREE_LEAF") and src_of(lp[0].generators[0].iter) == "range(len(tree.children_left))"
    ck.verdict(ok, "C08.e", mt, lp[0] if lp else "leaves = [...]", "leaves enumerated with the shared leaf predicate over all nodes", "leaf enumeration does not use the shared leaf predicate over range(len(children_left))")
    binner_src = [src_of(s.value) for s in own_nodes(tb.node) if isinstance(s, ast.Assign) and src_of(s.targets[0]) == "binner"]
    ck.verdict(binner_src == ["self.binner_"], "C08.e", tb, f"binner = {binner_src}", "predict routes with the fitted binner", "transform_bins does not use the fitted binner_")


def run(ck):
    repo = ck.repo
    for k, v in RULES.items():
        ck.rule(k, v)
    check_a(ck, repo)
    check_b(ck, repo)
    check_c(ck, repo)
    check_d(ck, repo)
    check_e(ck, repo)
    ck.require_count("C08.a", 3, "co-index, mask definition, copy, receiver, weights")
    ck.require_count("C08.b", 9, "clones, task arguments, fallback, binner, predict dispatch table")
    ck.require_count("C08.c", 3, "three return pairs, scatter loop, fallback scatter")
    ck.require_count("C08.d", 6, "arguments of the fit and predict task sites (piecewise) and the interval regressor")
    ck.require_count("C08.e", 7, "tree and transformer branches at fit and predict")


_F = "mlinsights/mlmodel/piecewise_estimator.py"
WITNESSES = [
    {"name": "weights-not-reselected", "file": _F, "rule": "C08.a", "old": "        Xi = X[ind, :]\n        yi = y[ind]\n        sw = sample_weight[ind] if sample_weight is not None else None\n\n    return", "new": "        Xi = X[ind, :]\n        yi = y[ind]\n\n    return"},
    {"name": "targets-before-borrowing", "file": _F, "rule": "C08.a", "old": "        Xi = X[ind, :]\n        yi = y[ind]\n        sw = sample_weight[ind] if sample_weight is not None else None\n\n    return", "new": "        Xi = X[ind, :]\n        sw = sample_weight[ind] if sample_weight is not None else None\n\n    return"},
    {"name": "mask-ge", "file": _F, "rule": "C08.a", "old": "    sample_weight, association, nb_classes, random_state\n):\n    ind = association == i\n", "new": "    sample_weight, association, nb_classes, random_state\n):\n    ind = association >= i\n"},
    {"name": "mask-not-copied", "file": _F, "rule": "C08.a", "old": "        ind = ind.copy()\n", "new": "        ind = ind | (association == i + 1)\n"},
    {"name": "wrong-estimator-index", "file": _F, "rule": "C08.b", "old": "                i,\n                estimators[i],\n", "new": "                i,\n                estimators[0],\n"},
    {"name": "fallback-not-cloned", "file": _F, "rule": "C08.b", "old": "self.mean_estimator_ = clone(self.estimator).fit(X, y, sample_weight)", "new": "self.mean_estimator_ = estimators[0].fit(X, y, sample_weight)"},
    {"name": "fallback-wrong-method", "file": _F, "rule": "C08.b", "old": "meth = getattr(self.mean_estimator_, method)", "new": 'meth = getattr(self.mean_estimator_, "predict")'},
    {"name": "proba-uses-predict-worker", "file": _F, "rule": "C08.b", "old": '            "predict_proba",\n            _predict_proba_piecewise_estimator,', "new": '            "predict_proba",\n            _predict_piecewise_estimator,'},
    {"name": "loop-skips-last", "file": _F, "rule": "C08.b", "old": "            else range(len(estimators))\n", "new": "            else range(len(estimators) - 1)\n"},
    {"name": "shared-generator", "file": _F, "rule": "C08.d", "old": "                seeds[i],\n", "new": "                rnd,\n"},
    {"name": "task-sorts-shared-y", "file": _F, "rule": "C08.d", "old": "    Xi = X[ind, :]\n    yi = y[ind]\n    sw = sample_weight[ind] if sample_weight is not None else None\n\n    if nb_classes", "new": "    Xi = X[ind, :]\n    yi = y[ind]\n    association[ind] = -2\n    sw = sample_weight[ind] if sample_weight is not None else None\n\n    if nb_classes"},
    {"name": "predict-key-float", "file": _F, "rule": "C08.e", "old": "                d = tuple(numpy.asarray(x.todense()).ravel().astype(numpy.int32))\n                association[i] = self.mapping_.get(d, -1)", "new": "                d = tuple(numpy.asarray(x.todense()).ravel())\n                association[i] = self.mapping_.get(d, -1)"},
    {"name": "predict-unknown-zero", "file": _F, "rule": "C08.e", "old": "association[ind] = self.mapping_.get(j, -1)", "new": "association[ind] = self.mapping_.get(j, 0)"},
    {"name": "predict-init-zero", "file": _F, "rule": "C08.e", "old": "            association = numpy.zeros((X.shape[0],))\n            association[:] = -1\n            tr = binner.transform(X)\n", "new": "            association = numpy.zeros((X.shape[0],))\n            tr = binner.transform(X)\n"},
    {"name": "predict-mask-ge", "file": _F, "rule": "C08.e", "old": "            for j in self.leaves_:\n                ind = dec_path[:, j] == 1\n", "new": "            for j in self.leaves_:\n                ind = dec_path[:, j] >= 0\n"},
    {"name": "shared-generator-in-list", "file": _F, "rule": "C08.d", "old": "            seeds = rnd.randint(numpy.iinfo(numpy.int32).max, size=len(estimators))\n", "new": "            seeds = [rnd for _ in estimators]\n"},
    {"name": "classifier-predict-argmax", "file": _F, "rule": "C08.b", "old": "        pred = self._apply_predict_method(X, \"predict\", _predict_piecewise_estimator, 1)\n        return pred.astype(numpy.int32)\n", "new": "        proba = self.predict_proba(X)\n        return numpy.argmax(proba, axis=1).astype(numpy.int32)\n"},
    {"name": "key-argmax", "file": _F, "rule": "C08.e", "old": "d = tuple(numpy.asarray(x.todense()).ravel().astype(numpy.int32))", "new": "d = (int(x.argmax()),)", "count": 3},
    {"name": "single-bucket-fast-path", "file": _F, "rule": "C08.b", "old": "        association = self.transform_bins(X)\n\n        indpred", "new": "        association = self.transform_bins(X)\n        first = int(association[0])\n        if numpy.all(association == first):\n            return getattr(self.estimators_[first], method)(X)\n\n        indpred"},
    {"name": "scatter-wrong", "file": _F, "rule": "C08.c", "old": "    return ind, est.predict_proba(X[ind, :])\n", "new": "    return association != i, est.predict_proba(X[ind, :])\n"},
]
TWINS = [
    {"name": "weights-branch-explicit", "file": _F, "old": "    Xi = X[ind, :]\n    yi = y[ind]\n    sw = sample_weight[ind] if sample_weight is not None else None\n\n    if nb_classes", "new": "    Xi = X[ind, :]\n    yi = y[ind]\n    sw = None if sample_weight is None else sample_weight[ind]\n\n    if nb_classes"},
]
MIN_WITNESSES = 13
