"""C08 — piecewise estimators: a partition by the binner, one local model per
bucket.

  C08.a  co-indexing at fit: X, y, sample_weight handed to the local model are
         selected by the same value of the mask, which is `association == i`
         for the task's own i (before and after the class-borrowing block)
  C08.b  one clone per mapping entry; task i gets estimators[i] and bucket id i;
         the fallback model is a clone fitted on all rows; rows not covered by
         any bucket go to getattr(self.mean_estimator_, <same method name>)
  C08.c  gather/scatter pairing at predict time (as C04.a, on this file)
  C08.d  no object shared by all delayed() tasks is mutated inside a task
  C08.e  one bucket-key encoding at fit (_mapping_train) and predict
         (transform_bins); unknown keys map to -1 in both
"""

from __future__ import annotations

import ast
import re
from typing import Dict, List, Optional, Set

from engine.src import FunctionInfo, own_nodes, own_nodes_incl_lambda, src_of, AnalysisError
from engine.util import is_self_attr, kwarg, const_value, enclosing_stmt, names_in
from engine.norm import same_modulo_names
from .common import resolve_call
from .pairing_rules import check_coindex, check_scatter, check_retpair, check_tuple_scatter, pairing
from .c02 import effects_for
from .sem import expander, ctext, want, xt, cond_want, conds_at, bind, calls, returns, stmt_of, self_attr_value_texts, defs_texts, guarded_values, gather_alternatives, same_selection
from engine.guards import cond_text
from engine import norm as _norm

RULES = {
    "C08.a": "features, targets and weights given to a bucket's model are gathered with the same mask value; the mask is association == i for the task's own i",
    "C08.b": "one clone per bucket, task i trains estimators[i] on bucket i; fallback = clone fitted on all rows; uncovered rows use the fallback's method of the same name",
    "C08.c": "gather/scatter pairing of per-bucket predictions",
    "C08.d": "arguments shared by all delayed() tasks (loop-invariant) are never written by the task (write summaries, generator draws included)",
    "C08.e": "bucket keys are built by structurally equal expressions at fit and predict; unknown -> -1 in both",
}

MOD = "mlinsights.mlmodel.piecewise_estimator"


def check_a(ck, repo):
    fi = repo.func(MOD, "_fit_piecewise_estimator")
    ex = expander(repo)
    params = fi.named_params
    p_i, p_model, p_X, p_y, p_sw, p_assoc = params[:6]
    fits = calls(fi, lambda c: isinstance(c.func, ast.Attribute) and c.func.attr == "fit")
    if not fits:
        ck.violated("C08.a", fi, "model.fit(Xi, yi, sample_weight=sw)", "the local model is no longer fitted in the task")
    own_mask = want(repo, f"{p_assoc} == {p_i}", fi, fi.node.body[-1])
    for c in fits:
        ck.verdict(isinstance(c.func.value, ast.Name) and c.func.value.id == p_model, "C08.a", fi, f"{src_of(c.func)}(...)", "the estimator handed to the task is the one fitted", "the task fits another object than the clone it was given")
        b = bind(c, ["X", "y", "sample_weight"])
        if set(b) != {"X", "y", "sample_weight"}:
            ck.violated("C08.a", fi, c, f"the local model is fitted with {sorted(b)}: features, targets and weights of the bucket are not all forwarded")
            continue
        alts = {k: gather_alternatives(repo, fi, v, c) for k, v in b.items()}
        bases = {k: {a[1] for a in v} for k, v in alts.items()}
        ck.verdict(bases == {"X": {p_X}, "y": {p_y}, "sample_weight": {p_sw}}, "C08.a", fi, f"{src_of(c)}: sources", "features, targets and weights are taken from the task's X, y, sample_weight", f"the arguments of fit are selected from {bases}, not from ({p_X}, {p_y}, {p_sw})")
        sel = {k: {(a[0], a[2], a[3]) for a in v} for k, v in alts.items()}
        same = same_selection([alts["X"], alts["y"], alts["sample_weight"]])
        if same:
            ck.holds("C08.a", fi, c, f"X, y and sample_weight are selected by the same row index on each of the {len(sel['X'])} branch(es)")
        else:
            ck.violated("C08.a", fi, c, f".fit(): X is selected with {sorted(x[1] for x in sel['X'])} but y with {sorted(x[1] for x in sel['y'])} and sample_weight with {sorted(x[1] for x in sel['sample_weight'])} (same branch, same definition of the index required): features, targets and weights of a row are no longer kept together")
        # every selection index is the task's own bucket mask, or a copy of it to which borrowed rows were added
        for conds, base, rows, leaves in alts["X"]:
            if rows == own_mask:
                ck.holds("C08.a", fi, f"mask {rows}", f"bucket mask selects {p_assoc} == {p_i} (the task's own bucket id)")
                continue
            okm = False
            why = f"the rows are selected by {rows}, not by {p_assoc} == {p_i}"
            try:
                r = ast.parse(rows, mode="eval").body
            except SyntaxError:
                r = None
            if isinstance(r, ast.Name):
                ds = [tx for _, tx in defs_texts(repo, fi, r.id)]
                copies = {own_mask, f"({own_mask}).copy()", f"numpy.copy({own_mask})", f"numpy.array({own_mask})"}
                okd = bool(ds) and all(d in copies for d in ds)
                # element stores into the mask only add rows
                stores = [x for x in own_nodes(fi.node) if isinstance(x, ast.Assign) and any(isinstance(t, ast.Subscript) and src_of(t.value) == r.id for t in x.targets)]
                oks = all(src_of(x.value) == "True" for x in stores)
                aug = [x for x in own_nodes(fi.node) if isinstance(x, ast.AugAssign) and src_of(x.target).split("[")[0] == r.id]
                okm = okd and oks and not aug
                why = f"the mask {r.id} is defined as {ds}" + ("" if oks and not aug else " and rows are removed from / combined into it")
            ck.verdict(okm, "C08.a", fi, f"mask {rows}", "the mask is the task's own bucket mask, or a copy of it to which borrowed rows are added", f"{why}: the model of bucket {p_i} is trained on other rows than its bucket's")
            if okm and isinstance(r, ast.Name):
                _check_borrowing(ck, repo, fi, r.id, p_y)


def _check_borrowing(ck, repo, fi: FunctionInfo, mask: str, p_y: str):
    """the classifier borrows ONE example for each class missing from the bucket:
    every index added to the mask copy is collected together with marking its
    class as found, where its class was not found yet"""
    # where the rows added to the mask come from
    adders = []
    for x in own_nodes(fi.node):
        if isinstance(x, ast.Assign) and isinstance(x.targets[0], ast.Subscript) and src_of(x.targets[0].value) == mask and src_of(x.value) == "True":
            adders.append(x)
    for a in adders:
        idx = a.targets[0].slice
        src = None
        if isinstance(idx, ast.Name):
            loop = next((p_ for p_ in _parents_of(a) if isinstance(p_, ast.For) and isinstance(p_.target, ast.Name) and p_.target.id == idx.id), None)
            src = loop.iter if loop is not None else idx
        # an index array made of the list (numpy.asarray(res, dtype=intp)) stands for the list
        for _hop in range(3):
            if isinstance(src, ast.Name):
                d_ = [x for x in own_nodes(fi.node) if isinstance(x, ast.Assign) and len(x.targets) == 1 and isinstance(x.targets[0], ast.Name) and x.targets[0].id == src.id]
                if len(d_) == 1 and isinstance(d_[0].value, ast.Call) and src_of(d_[0].value.func).split(".")[-1] in ("asarray", "array", "list", "tuple", "fromiter") and d_[0].value.args and isinstance(d_[0].value.args[0], ast.Name):
                    src = d_[0].value.args[0]
                    continue
            break
        if not isinstance(src, ast.Name):
            ck.violated("C08.a", fi, a, "rows are added to the bucket mask from something else than the list of borrowed examples")
            continue
        L = src.id
        built = [x for x in own_nodes(fi.node) if isinstance(x, ast.Assign) and any(isinstance(t, ast.Name) and t.id == L for t in x.targets)]
        apps = [c for c in own_nodes_incl_lambda(fi.node) if isinstance(c, ast.Call) and isinstance(c.func, ast.Attribute) and c.func.attr == "append" and src_of(c.func.value) == L]
        ok = bool(apps) and all(isinstance(b.value, ast.List) and not b.value.elts for b in built)
        for c in apps:
            if not ok:
                break
            k = src_of(c.args[0]) if c.args else None
            blk = _block_of_stmt(stmt_of(c))
            marks = [x for x in blk if isinstance(x, ast.Expr) and isinstance(x.value, ast.Call) and isinstance(x.value.func, ast.Attribute) and x.value.func.attr == "add" and [src_of(z) for z in x.value.args] == [f"{p_y}[{k}]"]]
            if len(marks) != 1:
                ok = False
                break
            F = src_of(marks[0].value.func.value)
            ok = cond_want(repo, f"{p_y}[{k}] not in {F}", fi, c) in conds_at(repo, fi, c)
            fdefs = [t for _, t in defs_texts(repo, fi, F)]
            ok = ok and bool(fdefs) and all(t.startswith("set(") for t in fdefs)
        ck.verdict(ok, "C08.a", fi, a, "one example is borrowed for each class missing from the bucket (the class is marked as found with it)", "the rows added to the bucket are not collected one per missing class (each borrowed index must be taken where its class is not found yet and mark it found): the local model is trained on more than its bucket's rows plus one example per missing class")


def _parents_of(n):
    p = getattr(n, "_parent", None)
    while p is not None:
        yield p
        p = getattr(p, "_parent", None)


def _block_of_stmt(stmt):
    p = getattr(stmt, "_parent", None)
    for f in ("body", "orelse", "finalbody"):
        b = getattr(p, f, None)
        if isinstance(b, list) and any(x is stmt for x in b):
            return b
    return [stmt]


def _parallel_sites(fi: FunctionInfo):
    """[(call Parallel(..)(gen), gen, inner call delayed(f)(args), f expr)]"""
    out = []
    # locals bound exactly once (`runner = Parallel(..)`, `tasks = (.. for ..)`, `fit_one = delayed(f)`)
    once: Dict[str, ast.AST] = {}
    counts: Dict[str, int] = {}
    for n in own_nodes(fi.node):
        if isinstance(n, ast.Name) and isinstance(n.ctx, (ast.Store, ast.Del)):
            counts[n.id] = counts.get(n.id, 0) + 1
        if isinstance(n, ast.Assign) and len(n.targets) == 1 and isinstance(n.targets[0], ast.Name):
            once[n.targets[0].id] = n.value
    once = {k: v for k, v in once.items() if counts.get(k) == 1}

    def res(x):
        return once[x.id] if isinstance(x, ast.Name) and x.id in once else x

    for c in own_nodes_incl_lambda(fi.node):
        if not (isinstance(c, ast.Call) and c.args):
            continue
        f0 = res(c.func)
        if isinstance(f0, ast.Call) and src_of(f0.func).split(".")[-1] == "Parallel" and isinstance(res(c.args[0]), ast.GeneratorExp):
            gen = res(c.args[0])
            e = gen.elt
            if isinstance(e, ast.Call):
                d0 = res(e.func)
                if isinstance(d0, ast.Call) and src_of(d0.func) == "delayed" and d0.args:
                    out.append((c, gen, e, d0.args[0]))
    return out


def _strip_progress(x: ast.AST) -> ast.AST:
    """tqdm(range(n)) -> range(n): a progress bar yields the items of its argument"""
    if isinstance(x, ast.Call) and ast.unparse(x.func).split(".")[-1] in ("tqdm", "trange", "list", "iter") and x.args:
        return _strip_progress(x.args[0])
    return x


def check_b(ck, repo):
    ci = repo.cls(MOD, "PiecewiseEstimator")
    fit = ci.methods["fit"]
    ex = expander(repo)
    sites = _parallel_sites(fit)
    if len(sites) != 1:
        ck.unknown("C08.b", fit, "Parallel(...)(delayed(_fit_piecewise_estimator)(...))", f"{len(sites)} parallel sites in fit")
    else:
        c, gen, inner, f = sites[0]
        st = enclosing_stmt(c)
        lv = src_of(gen.generators[0].target)
        it = gen.generators[0].iter
        callee = repo.func(MOD, "_fit_piecewise_estimator")
        ps = callee.named_params
        b = bind(inner, ps)
        ck.verdict(src_of(f) == "_fit_piecewise_estimator", "C08.b", fit, f"delayed({src_of(f)})", "tasks run _fit_piecewise_estimator", "tasks run another function")
        m_arg = b.get(ps[1])
        E = m_arg.value.id if isinstance(m_arg, ast.Subscript) and isinstance(m_arg.value, ast.Name) else None
        ck.verdict(src_of(b.get(ps[0])) == lv and E is not None and src_of(m_arg.slice) == lv, "C08.b", fit, f"task args ({src_of(b.get(ps[0]))}, {src_of(m_arg)}, ...)", f"task {lv} trains the {lv}-th clone on bucket {lv}", "the estimator handed to a task does not have the index of the bucket it is trained on")
        # one clone per mapping entry
        okc = False
        ds = defs_texts(repo, fit, E) if E else []
        if len(ds) == 1:
            try:
                v = ast.parse(ds[0][1], mode="eval").body
            except SyntaxError:
                v = None
            okc = isinstance(v, ast.ListComp) and ast.unparse(v.elt) == "clone(self.estimator)" and len(v.generators) == 1 and not v.generators[0].ifs and ast.unparse(v.generators[0].iter) in ("self.mapping_", "range(len(self.mapping_))", "self.mapping_.values()", "self.mapping_.keys()", "self.mapping_.items()")
        ck.verdict(okc, "C08.b", fit, ds[0][0] if ds else "estimators = [...]", "one clone of the local estimator per bucket of the mapping", "the list of local models is not one fresh clone per mapping entry")
        # the loop covers range(len(estimators))
        vals = [xt(_strip_progress(x)) for _, x, _ in guarded_values(repo, fit, it, st)]
        w = want(repo, f"range(len({E}))", fit, st) if E else None
        ck.verdict(bool(vals) and all(v == w for v in vals), "C08.b", fit, f"task loop over {sorted(set(v[:40] for v in vals))}", "every bucket gets a task", "the task loop does not cover range(len(estimators)): some buckets are never trained")
        # data arguments forwarded to their own parameters
        pairs = {k: src_of(v) for k, v in b.items()}
        ok = pairs.get("X") == "X" and pairs.get("y") == "y" and pairs.get("sample_weight") == "sample_weight"
        a_t = ex.text(b["association"], fit, st) if "association" in b else ""
        ck.verdict(ok and (a_t == want(repo, "self._mapping_train(X, self.binner_)[0]", fit, st) or src_of(b.get("association")) == "association"), "C08.b", fit, inner, "X, y, sample_weight, association forwarded to their own parameters", f"task arguments {pairs} do not line up with parameters {ps}")
        ck.verdict(isinstance(st, ast.Assign) and any(is_self_attr(t, "estimators_") for t in st.targets), "C08.b", fit, "self.estimators_ = Parallel(...)", "fitted local models stored in bucket order", "the fitted local models are not stored as estimators_")
    # fallback
    fb = self_attr_value_texts(repo, fit, "mean_estimator_")
    okf = False
    if len(fb) == 1:
        try:
            v = ast.parse(fb[0][1], mode="eval").body
        except SyntaxError:
            v = None
        if isinstance(v, ast.Call) and isinstance(v.func, ast.Attribute) and v.func.attr == "fit" and ast.unparse(v.func.value) == "clone(self.estimator)":
            bb = {k: ast.unparse(x) for k, x in bind(v, ["X", "y", "sample_weight"]).items()}
            okf = bb.get("X") == "X" and bb.get("y") == "y" and bb.get("sample_weight", "sample_weight") == "sample_weight"
    ck.verdict(okf, "C08.b", fit, fb[0][0] if fb else "self.mean_estimator_ = ...", "fallback is a clone of the local estimator fitted on all rows", "the fallback model is not clone(self.estimator).fit(X, y, ...) on the whole training set")
    # the binner
    bn = self_attr_value_texts(repo, fit, "binner_")
    ck.verdict(bool(bn) and all(t.startswith("clone(self.binner).fit(X, y") for _, t in bn), "C08.b", fit, bn[0][0] if bn else "self.binner_ = clone(self.binner).fit(X, y)", "the binner is a clone fitted in fit on the training rows", "the binner fitted is not a clone of the hyper-parameter fitted on (X, y)")
    mt = calls(fit, lambda c: src_of(c.func) == "self._mapping_train")
    if len(mt) == 1:
        a = {k: ex.text(v, fit, mt[0]) for k, v in bind(mt[0], ci.methods["_mapping_train"].named_params[1:]).items()}
        tc = ex.text(mt[0], fit, mt[0])
        with ex.lenient():
            mp = [t for _, t in self_attr_value_texts(repo, fit, "mapping_")]
            lv_ = [t for _, t in self_attr_value_texts(repo, fit, "leaves_")]
        ck.verdict(a == {"X": "X", "binner": "self.binner_"} and mp == [ctext(f"({tc})[1]")] and lv_ == [ctext(f"({tc})[2]")], "C08.b", fit, mt[0], "buckets computed on the training rows with the fitted binner", "bucket mapping is not computed from (X, self.binner_) into (association, mapping_, leaves_)")
    else:
        ck.unknown("C08.b", fit, "self._mapping_train(X, self.binner_)", f"{len(mt)} calls")
    # predict side
    ap = ci.methods["_apply_predict_method"]
    sites = _parallel_sites(ap)
    if len(sites) != 1:
        ck.unknown("C08.b", ap, "Parallel(...)(delayed(parallelized)(...))", f"{len(sites)} parallel sites")
    else:
        c, gen, inner, f = sites[0]
        g = gen.generators[0]
        ok = (src_of(g.iter) == "enumerate(self.estimators_)" or expander(repo).text(g.iter, ap, stmt_of(c)) == "enumerate(self.estimators_)") and isinstance(g.target, ast.Tuple) and len(g.target.elts) == 2
        a = [src_of(x) for x in inner.args]
        if ok:
            i, m = [src_of(x) for x in g.target.elts]
            ck.verdict(a[:2] == [i, m] and a[2:4] == ["X", "association"], "C08.b", ap, inner, "bucket i is predicted by estimators_[i]", f"prediction task arguments {a} do not pair bucket id and model of the same position")
        else:
            ck.violated("C08.b", ap, inner, "prediction tasks do not enumerate self.estimators_")
    rets = [r for r in own_nodes(ap.node) if isinstance(r, ast.Return)]
    names = {src_of(r.value) for r in rets if r.value is not None}
    N = next(iter(names)) if len(names) == 1 and all(isinstance(r.value, ast.Name) for r in rets) else None
    scat = [x for x in own_nodes(ap.node) if isinstance(x, ast.Assign) and any(isinstance(t, ast.Subscript) and src_of(t.value) == N for t in x.targets)] if N else []
    ck.verdict(N is not None and len(scat) >= 2, "C08.b", ap, f"returns {sorted(names)}", "the only value returned is the array the per-bucket results and the fallback were scattered into", f"_apply_predict_method returns {sorted(src_of(r.value) for r in rets if r.value is not None)}: some path bypasses the per-bucket scatter and the fallback for rows whose bucket was empty at training time (bucket id -1)")
    # the buffer keeps what the bucket models return: float64 (default), never the dtype of X
    if N:
        allocs = [x for x in own_nodes(ap.node) if isinstance(x, ast.Assign) and any(isinstance(t, ast.Name) and t.id == N for t in x.targets) and isinstance(x.value, ast.Call) and src_of(x.value.func) in ("numpy.zeros", "numpy.empty", "numpy.full", "numpy.ones")]
        for x in allocs:
            dt = [k.value for k in x.value.keywords if k.arg == "dtype"]
            if not dt and src_of(x.value.func) != "numpy.full" and len(x.value.args) > 1:
                dt = [x.value.args[1]]
            if not dt and src_of(x.value.func) == "numpy.full" and len(x.value.args) > 2:
                dt = [x.value.args[2]]
            lossy = [d for d in dt if src_of(d).replace('"', "'") not in ("float", "numpy.float64", "'float64'", "numpy.double", "None")]
            ck.verdict(not lossy, "C08.b", ap, x, "the output buffer stores the bucket models' outputs unchanged (float64)", f"the output buffer is allocated with dtype={src_of(lossy[0]) if lossy else ''}: the bucket models' outputs are cast when scattered (integer features truncate predictions, probabilities no longer sum to one), so the output for a row is not its bucket's model's output")
    if len(sites) == 1:
        inner = sites[0][2]
        a3 = ex.text(inner.args[3], ap, enclosing_stmt(sites[0][0])) if len(inner.args) > 3 else None
        ck.verdict(a3 == "self.transform_bins(X)", "C08.b", ap, f"association = {a3}", "rows are routed by transform_bins", "rows are not routed by transform_bins(X)")
    ga = [c for c in own_nodes_incl_lambda(ap.node) if isinstance(c, ast.Call) and src_of(c.func) == "getattr"]
    okm = any(len(c.args) == 2 and src_of(c.args[0]) == "self.mean_estimator_" and src_of(c.args[1]) == "method" for c in ga)
    ck.verdict(okm, "C08.b", ap, "getattr(self.mean_estimator_, method)", "uncovered rows use the fallback's method of the same name", "uncovered rows are not sent to getattr(self.mean_estimator_, method)")
    # the fallback answers whenever at least one row has no bucket
    ex_ = expander(repo)
    fstores = []
    for x in own_nodes(ap.node):
        if isinstance(x, ast.Assign) and isinstance(x.targets[0], ast.Subscript) and isinstance(x.value, (ast.Call, ast.Name)):
            with ex_.lenient():
                vt = ex_.text(x.value, ap, x)
            if "getattr(self.mean_estimator_" in vt:
                fstores.append(x)
    for x in fstores:
        with ex_.lenient():
            M = ex_.text(x.targets[0].slice, ap, x)
        Xp = ap.named_params[1]
        rows = [f"{Xp}[{M}]", f"{Xp}[{M}, :]"]
        okforms = set()
        for r_ in rows:
            okforms |= {cond_text(f"{r_}.shape[0] > 0"), cond_text(f"len({r_}) > 0"), cond_text(f"{r_}.shape[0]"), cond_text(f"len({r_})"), cond_text(f"{r_}.shape[0] == 0", False), cond_text(f"{r_}.shape[0] >= 1"), cond_text(f"{r_}.size > 0")}
        okforms |= {cond_text(f"({M}).any()"), cond_text(f"numpy.any({M})"), cond_text(f"({M}).sum() > 0"), cond_text(f"numpy.count_nonzero({M}) > 0"), cond_text(f"({M}).sum()"), cond_text(f"numpy.sum({M}) > 0"), cond_text(f"({M}).sum() >= 1")}
        cs = list(conds_at(repo, ap, x))
        other = [c_ for c_ in cs if c_ not in okforms]
        every = [c_ for c_ in other if c_[1] and (".all()" in c_[0] or "numpy.all(" in c_[0] or "numpy.alltrue(" in c_[0])]
        if every:
            ck.violated("C08.b", ap, x, f"the fallback answers the uncovered rows only when {every[0][0][:80]} (every row of the batch is uncovered): in a batch that mixes covered and uncovered rows the uncovered ones keep the initial zeros instead of the fallback model's output")
        elif other:
            ck.unknown("C08.b", ap, x, f"the fallback store is guarded by {[c_[0][:60] for c_ in other]}, which is not one of the spellings of 'at least one uncovered row' this rule reads")
        else:
            ck.holds("C08.b", ap, x, "the fallback answers as soon as one row has no bucket")
    # public methods pass their own name and the matching worker
    table = {"predict": "_predict_piecewise_estimator", "predict_proba": "_predict_proba_piecewise_estimator", "decision_function": "_decision_function_piecewise_estimator"}
    for cname in ("PiecewiseRegressor", "PiecewiseClassifier"):
        cc = repo.cls(MOD, cname)
        for mname, m in cc.methods.items():
            if mname in table:
                nd = [c for c in own_nodes_incl_lambda(m.node) if isinstance(c, ast.Call) and src_of(c.func) == "self._apply_predict_method"]
                if not nd:
                    ck.violated("C08.b", m, f"{cname}.{mname}", f"{cname}.{mname} does not dispatch '{mname}' to the bucket models through _apply_predict_method: the output for a row is no longer its bucket's model's {mname}")
                    continue
                # the returned value must come from that call
                rets = [r for r in own_nodes(m.node) if isinstance(r, ast.Return)]
                okr = True
                for r in rets:
                    v = r.value
                    if isinstance(v, ast.Call) and (v is nd[0] or (isinstance(v.func, ast.Attribute) and v.func.attr == "astype" and isinstance(v.func.value, ast.Name))):
                        if v is nd[0]:
                            continue
                    if isinstance(v, ast.Call) and isinstance(v.func, ast.Attribute) and v.func.attr == "astype" and v.func.value is nd[0]:
                        continue
                    if isinstance(v, ast.Call) and (v is nd[0] or (isinstance(v.func, ast.Attribute) and v.func.attr == "astype" and isinstance(v.func.value, ast.Name))):
                        nm = v.func.value.id
                        defs = [x for x in own_nodes(m.node) if isinstance(x, ast.Assign) and src_of(x.targets[0]) == nm]
                        if len(defs) == 1 and defs[0].value is nd[0]:
                            continue
                    okr = False
                ck.verdict(okr, "C08.b", m, f"{cname}.{mname}: return value", "the value returned is the dispatch result (at most re-typed)", f"{cname}.{mname} does not return the result of the per-bucket dispatch")
            for c in own_nodes_incl_lambda(m.node):
                if isinstance(c, ast.Call) and src_of(c.func) == "self._apply_predict_method":
                    a = c.args
                    name = const_value(a[1]) if len(a) > 1 else None
                    worker = src_of(a[2]) if len(a) > 2 else None
                    ck.verdict(name == mname and table.get(mname) == worker, "C08.b", m, c, f"{cname}.{mname} dispatches method '{name}' to {worker}", f"{cname}.{mname} asks for method {name!r} with worker {worker}: names disagree")
    for mname, wname in table.items():
        w = repo.func(MOD, wname)
        rs = returns(repo, w)
        okw = False
        if rs:
            try:
                last = ast.parse(rs[-1][1], mode="eval").body
            except SyntaxError:
                last = None
            if isinstance(last, ast.Tuple) and len(last.elts) == 2 and isinstance(last.elts[1], ast.Call) and isinstance(last.elts[1].func, ast.Attribute):
                cl = last.elts[1]
                okw = cl.func.attr == mname and ast.unparse(cl.func.value) == w.named_params[1]
        ck.verdict(okw, "C08.b", w, rs[-1][0] if rs else wname, f"worker calls est.{mname}", f"worker {wname} does not call the bucket model's {mname}")


def check_c(ck, repo):
    mi = repo.modules[MOD]
    n = 0
    for fi in repo.functions_of(mi):
        n += check_scatter(ck, "C08.c", repo, fi)
        n += check_retpair(ck, "C08.c", repo, fi)
        n += check_tuple_scatter(ck, "C08.c", repo, fi)
    return n


def check_d(ck, repo):
    eff = effects_for(repo)
    n = 0
    for fi in repo.all_functions.values():
        if not fi.module.name.startswith("mlinsights.mlmodel"):
            continue
        for c, gen, inner, f in _parallel_sites(fi):
            fake = ast.Call(func=f, args=inner.args, keywords=inner.keywords)
            ast.copy_location(fake, inner)
            callees = []
            callee = resolve_call(repo, fi, fake)
            if callee is not None:
                callees = [callee]
            elif isinstance(f, ast.Name):
                # function-valued parameter: every repository function passed for it
                for g in repo.all_functions.values():
                    for cc in own_nodes_incl_lambda(g.node):
                        if isinstance(cc, ast.Call) and resolve_call(repo, g, cc) is fi:
                            b = eff._bind(cc, fi, g)
                            if f.id in b and isinstance(b[f.id], ast.Name):
                                tgt = repo.resolve_name(g.module, b[f.id].id)
                                h = repo.get_function(tgt) if tgt else None
                                if h is not None and h not in callees:
                                    callees.append(h)
            if not callees:
                ck.unknown("C08.d", fi, inner, "cannot resolve the task function")
                continue
            loopvars = set()
            for g in gen.generators:
                loopvars |= names_in(g.target)
            for callee in callees:
                s = eff.summaries.get(callee.qualname)
                binding = eff._bind(fake, callee, fi)
                for p, e in binding.items():
                    n += 1
                    shared = not (names_in(e) & loopvars)
                    if not shared and isinstance(e, ast.Subscript) and isinstance(e.value, ast.Name):
                        # seeds[i] where every element of `seeds` is one and the same object
                        se = _shared_element(fi, e.value.id)
                        if se is not None:
                            shared = True
                            e = se
                    w = s.writes.get(p) if s else None
                    label = f"{callee.name}({p}={src_of(e)[:30]})"
                    if not shared:
                        ck.holds("C08.d", fi, label, "per-task argument (depends on the task index)", nontrivial=False)
                    elif w:
                        ck.violated("C08.d", fi, label, f"'{src_of(e)}' is the same object for every task and the task writes it ({w}): with n_jobs > 1 the result depends on the thread schedule")
                    else:
                        ck.holds("C08.d", fi, label, "shared argument is only read by the task")
    return n


def _shared_element(fi: FunctionInfo, name: str):
    """if some definition of list `name` puts the SAME non-constant object in
    every position ([obj for _ in ...] or [obj] * n), return that element
    expression."""
    for s in own_nodes(fi.node):
        if isinstance(s, ast.Assign) and any(isinstance(t, ast.Name) and t.id == name for t in s.targets):
            v = s.value
            if isinstance(v, ast.ListComp):
                cv = set()
                for g in v.generators:
                    cv |= names_in(g.target)
                if not (names_in(v.elt) & cv) and not isinstance(v.elt, ast.Constant) and not isinstance(v.elt, ast.Call):
                    return v.elt
            if isinstance(v, ast.BinOp) and isinstance(v.op, ast.Mult) and isinstance(v.left, ast.List) and len(v.left.elts) == 1 and not isinstance(v.left.elts[0], (ast.Constant, ast.Call)):
                return v.left.elts[0]
    return None


LOSSY_REDUCERS = {"argmax", "argmin", "max", "min", "sum", "mean", "any", "all", "count_nonzero", "first", "nonzero"}


def _keyfun(x: ast.AST, rowvars=()) -> Optional[str]:
    """text of a key expression as a function of the row it encodes: the loop
    term (`__it__(rows, ...)`) or the comprehension variable is replaced by ROW;
    returns (key function, rows text)"""
    rows = []

    class R(ast.NodeTransformer):
        def visit_Call(self, n):
            if isinstance(n.func, ast.Name) and n.func.id == "__it__":
                rows.append(ast.unparse(n.args[0]))
                return ast.Name(id="ROW", ctx=ast.Load())
            return self.generic_visit(n)

        def visit_Name(self, n):
            if n.id in rowvars:
                return ast.Name(id="ROW", ctx=ast.Load())
            return n

    from engine.util import clone_ast

    y = R().visit(clone_ast(x))
    return ast.unparse(_norm.canon(y, rename=False)), (rows[0] if rows else None)


def _init_unassigned(repo, fn: FunctionInfo, A: str, _depth: int = 0):
    """every definition of the association array leaves all rows at -1 before
    any row is given a bucket: numpy.full(shape, -1) or zeros/empty followed by
    A[:] = -1 in the same block"""
    ex = expander(repo)
    res = []
    for s in sorted((x for x in own_nodes(fn.node) if isinstance(x, ast.Assign) and len(x.targets) == 1 and src_of(x.targets[0]) == A), key=lambda x: x.lineno):
        t = ex.text(s.value, fn, s).replace(" ", "")
        if _depth < 2 and isinstance(s.value, ast.Subscript) and isinstance(s.value.value, ast.Name) and s.value.value.id != A:
            # ids[inverse]: rows take their value from a table; the table is what starts at -1
            res += _init_unassigned(repo, fn, s.value.value.id, _depth + 1)
            continue
        if not t.startswith(("numpy.full(", "numpy.zeros(", "numpy.empty(", "numpy.ones(", "-numpy.ones(", "numpy.zeros_like(", "numpy.empty_like(", "numpy.full_like(")):
            res.append((s, None))
            continue
        full = t.startswith("numpy.full(") and (t.endswith(",-1)") or t.endswith(",-1.0)") or ",-1," in t or ",-1.0," in t or "fill_value=-1" in t)
        neg = t.startswith("-numpy.ones(")
        ok = full or neg
        if not ok:
            blk = getattr(s, "_parent", None)
            body = None
            for f in ("body", "orelse", "finalbody"):
                b = getattr(blk, f, None)
                if isinstance(b, list) and any(x is s for x in b):
                    body = b
            after = body[body.index(s) + 1:] if body else []
            for x in after:
                if isinstance(x, ast.Assign) and src_of(x.targets[0]) in (f"{A}[:]", f"{A}[...]") and ex.text(x.value, fn, x) in ("-1", "-1.0"):
                    ok = True
                    break
                if isinstance(x, ast.Expr) and src_of(x.value).replace(" ", "") in (f"{A}.fill(-1)", f"{A}.fill(-1.0)"):
                    ok = True
                    break
                if isinstance(x, (ast.For, ast.While)) or (isinstance(x, ast.Assign) and any(isinstance(t_, ast.Subscript) and src_of(t_.value) == A for t_ in x.targets)):
                    break
        res.append((s, ok))
    return res


def check_e(ck, repo):
    ci = repo.cls(MOD, "PiecewiseEstimator")
    mt, tb = ci.methods["_mapping_train"], ci.methods["transform_bins"]
    fit = ci.methods["fit"]
    ex = expander(repo)
    # the binner handed to _mapping_train is the fitted one
    mcall = calls(fit, lambda c: src_of(c.func) == "self._mapping_train")
    binner_arg = None
    if len(mcall) == 1:
        binner_arg = ex.text(bind(mcall[0], mt.named_params[1:]).get("binner"), fit, mcall[0]) if "binner" in bind(mcall[0], mt.named_params[1:]) else None
    p_binner = mt.named_params[2] if len(mt.named_params) > 2 else "binner"

    def subst(t: Optional[str]) -> Optional[str]:
        """_mapping_train's binner parameter is the fitted binner"""
        if t is None or binner_arg is None:
            return t
        import re
        return re.sub(r"(?<![\w.])" + re.escape(p_binner) + r"(?![\w])", binner_arg, t)

    # ---- transformer binner: one key encoding everywhere
    keys = []  # (function, node, key function text, rows text, kind)
    for fn in (mt, tb):
        for c in own_nodes_incl_lambda(fn.node):
            if isinstance(c, ast.Call) and isinstance(c.func, ast.Attribute) and c.func.attr == "get" and src_of(c.func.value) in ("mapping", "self.mapping_") and c.args:
                st = stmt_of(c)
                kx = ex.norm_expr(c.args[0], fn, st)
                kf, rows = _keyfun(kx)
                if rows is None:
                    continue  # the tree branch looks leaf ids up, not row encodings
                if "decision_path" in kf or kf == "ROW":
                    continue
                keys.append((fn, c, kf, subst(rows), "lookup"))
                d = ex.text(c.args[1], fn, st) if len(c.args) > 1 else None
                ck.verdict(d == "-1", "C08.e", fn, c, "unknown key -> -1", f"key lookup defaults to {d}, not -1: rows of an unseen cell get a bucket id")
            if isinstance(c, ast.Call) and isinstance(c.func, ast.Attribute) and c.func.attr == "add" and c.args and fn is mt:
                st = stmt_of(c)
                kf, rows = _keyfun(ex.norm_expr(c.args[0], fn, st))
                if rows is not None:
                    keys.append((fn, c, kf, subst(rows), "collect"))
            if isinstance(c, (ast.SetComp, ast.ListComp, ast.GeneratorExp)) and fn is mt and len(c.generators) == 1 and not c.generators[0].ifs:
                g = c.generators[0]
                rv = {n.id for n in ast.walk(g.target) if isinstance(n, ast.Name)}
                it_t = ex.text(g.iter, fn, stmt_of(c))
                if "transform(" in it_t:
                    kf, _ = _keyfun(ex.norm_expr(c.elt, fn, stmt_of(c)), rv)
                    keys.append((fn, c, kf, subst(it_t), "collect"))
    kinds = {(fn.name, k) for fn, _, _, _, k in keys}
    need = {("_mapping_train", "collect"), ("_mapping_train", "lookup"), ("transform_bins", "lookup")}
    if not need <= kinds:
        ck.unknown("C08.e", tb, "bucket keys of the transformer binner", f"key sites found: {sorted(kinds)}; expected {sorted(need)}")
    else:
        kfs = {k[2] for k in keys}
        rws = {k[3] for k in keys}
        def _kcore(t_):
            # wrappers that change the container or the number type of a row, not the numbers in it
            for _ in range(8):
                t0 = t_
                t_ = re.sub(r"\.(todense|toarray|ravel|flatten|tocsc|tocsr)\(\)", "", t_)
                t_ = re.sub(r"\.astype\(numpy\.int(32|64)\)", "", t_)
                t_ = re.sub(r"numpy\.(asarray|array)\(((?:[^()]|\([^()]*\))*)\)", r"\2", t_)
                if t_ == t0:
                    break
            return t_

        if (len(kfs) > 1 or rws != {"self.binner_.transform(X)"}) and len({_kcore(k_) for k_ in kfs}) == 1 and {_kcore(r_) for r_ in rws} == {"self.binner_.transform(X)"}:
            ck.unknown("C08.e", tb, f"key = {sorted(kfs)}", f"fit and predict encode the rows of self.binner_.transform(X) into keys with different densifications / casts ({sorted(kfs)} over {sorted(rws)}): the keys are equal when both sides end up with dense rows of numbers, which this rule does not decide")
            kfs, rws = {sorted(kfs)[0]}, {"self.binner_.transform(X)"}
        ck.verdict(len(kfs) == 1, "C08.e", tb, f"key = {sorted(kfs)[0][:70]}", "bucket keys of the transformer binner are built by one expression everywhere", f"fit and predict build bucket keys with different expressions {sorted(kfs)}: no row finds its bucket")
        ck.verdict(rws == {"self.binner_.transform(X)"}, "C08.e", tb, f"rows = {sorted(rws)}", "the rows encoded are the fitted binner's transform of the rows at hand", f"key rows come from {sorted(rws)}, not from self.binner_.transform(X) on both sides")
        for kf in sorted(kfs):
            try:
                kv = ast.parse(kf, mode="eval").body
            except SyntaxError:
                kv = None
            red = [c_ for c_ in ast.walk(kv) if isinstance(c_, ast.Call) and ast.unparse(c_.func).split(".")[-1] in LOSSY_REDUCERS] if kv is not None else []
            sub1 = [x for x in ast.walk(kv) if isinstance(x, ast.Subscript) and isinstance(x.slice, ast.Constant)] if kv is not None else []
            ck.verdict(not red and not sub1, "C08.e", mt, f"key function {kf[:60]}", "bucket key keeps every entry of the binner's output row", f"the bucket key {kf[:60]!r} reduces the binner's output row to one number: distinct discretizer cells share a bucket, so rows are not routed to exactly their own cell's model")
        # mapping: key -> position in the sorted distinct keys (bucket ids 0..n-1)
        # row i gets the bucket of its own key
        for fn, c, kf, rows, kind in keys:
            if kind != "lookup":
                continue
            st = stmt_of(c)
            ok = isinstance(st, ast.Assign) and isinstance(st.targets[0], ast.Subscript) and st.value is c
            if ok:
                ix = ex.norm_expr(st.targets[0].slice, fn, st)
                ok = isinstance(ix, ast.Call) and isinstance(ix.func, ast.Name) and ix.func.id == "__it__" and "'idx'" in ast.unparse(ix.args[1]) and subst(ast.unparse(ix.args[0])) == rows
            ck.verdict(ok, "C08.e", fn, st, "row i gets the bucket of its own key", "the bucket looked up for a row's key is not stored at that row's position")
    # ---- a selection kept as positions is empty when it has no element, not when none is "true"
    all_fns_ = [f_ for f_ in repo.all_functions.values() if getattr(f_, "module", None) is mt.module]
    for fn in all_fns_:
        for d_ in own_nodes(fn.node):
            if isinstance(d_, ast.Assign) and len(d_.targets) == 1 and isinstance(d_.targets[0], ast.Name):
                tv_ = src_of(d_.value).replace(" ", "")
                if tv_.endswith(".nonzero()[0]") or tv_.startswith(("numpy.flatnonzero(", "numpy.where(", "numpy.nonzero(", "numpy.argwhere(")):
                    nm_ = d_.targets[0].id
                    for t_ in own_nodes(fn.node):
                        if isinstance(t_, (ast.If, ast.While, ast.IfExp)):
                            tt_ = src_of(t_.test).replace(" ", "")
                            if f"numpy.any({nm_})" in tt_ or f"{nm_}.any()" in tt_ or f"numpy.all({nm_})" in tt_:
                                ck.violated("C08.e", fn, t_ if isinstance(t_, ast.stmt) else stmt_of(t_), f"`{src_of(t_.test)[:50]}` is asked of {nm_}, which holds row POSITIONS ({src_of(d_.value)[:50]}): position 0 is false, so a bucket whose only row is the first of the batch is taken for empty and that row is answered by the fallback model")
    # ---- tree binner: same leaf membership, leaf id is the mapping key
    masks = {}
    for fn in (mt, tb):
        for s_ in own_nodes(fn.node):
            if isinstance(s_, ast.Assign) and len(s_.targets) == 1 and isinstance(s_.targets[0], ast.Subscript) and isinstance(s_.targets[0].value, ast.Name):
                mx = ex.norm_expr(s_.targets[0].slice, fn, s_)
                t = ast.unparse(mx)
                if "decision_path" not in t:
                    continue
                kf, leaf_src = _keyfun(mx)
                val = ex.norm_expr(s_.value, fn, s_)
                masks[fn.name] = (s_, subst(kf), leaf_src, val)
    if set(masks) != {"_mapping_train", "transform_bins"}:
        ck.unknown("C08.e", tb, "leaf membership masks", f"found in {sorted(masks)}")
    else:
        (s1, m1, l1, v1), (s2, m2, l2, v2) = masks["_mapping_train"], masks["transform_bins"]
        def _core(m_):
            """the comparison that decides membership, without the conversion of its result into a
            dense mask or into the positions of its true entries (both select the same rows)"""
            t_ = m_
            for _ in range(6):
                t0 = t_
                for pre_, suf_ in (("numpy.asarray(", ").flatten()"), ("numpy.asarray(", ").ravel()"), ("numpy.asarray(", ")"), ("numpy.flatnonzero(", ")"), ("numpy.where(", ")[0]"), ("numpy.nonzero(", ")[0]"), ("(", ")")):
                    if t_.startswith(pre_) and t_.endswith(suf_) and len(t_) > len(pre_) + len(suf_):
                        inner = t_[len(pre_) : len(t_) - len(suf_)]
                        depth_, okn_ = 0, True
                        for ch_ in inner:
                            depth_ += ch_ == "("
                            depth_ -= ch_ == ")"
                            if depth_ < 0:
                                okn_ = False
                                break
                        if okn_ and depth_ == 0:
                            t_ = inner
                t_ = t_.replace(".tocsc()", "").replace(".tocsr()", "")
                for suf_ in (".todense()", ".toarray()", ".nonzero()[0]", ".A", ".A1", ".ravel()", ".flatten()"):
                    if t_.endswith(suf_):
                        t_ = t_[: -len(suf_)]
                if t_ == t0:
                    break
            return t_

        if m1 != m2 and _core(m1) == _core(m2):
            m1 = m2 = _core(m1)
        ck.verdict(m1 == m2 and "self.binner_.decision_path(X)" in m1, "C08.e", tb, f"leaf mask {m2[:70]}", "leaf membership is decided by the same expression of the fitted binner's decision path at fit and predict", f"fit selects a leaf's rows with {m1} but predict with {m2}")
        ck.verdict(l2 == "self.leaves_", "C08.e", tb, f"predict enumerates {l2}", "predict enumerates the leaves stored at fit", "predict does not enumerate self.leaves_")
        # predict: association[mask] = self.mapping_.get(<leaf>, -1)
        okp = isinstance(v2, ast.Call) and ast.unparse(v2.func) == "self.mapping_.get" and len(v2.args) == 2 and _keyfun(v2.args[0])[0] == "ROW" and ast.unparse(v2.args[1]) == "-1"
        ck.verdict(okp, "C08.e", tb, s2, "predict looks the leaf id up in the mapping, unknown -> -1", "predict does not look up mapping_.get(leaf id, -1)")
        # fit: mapping[<leaf>] = n and association[mask] = n, n incremented in the same block
        from .c07 import _effects, _block_of
        eff = _effects(repo, mt, _block_of(s1), s1)
        setm = [e for e in eff if e[0] == "set" and e[1] == "mapping"]
        seta = [e for e in eff if e[0] == "set" and e[4] is s1]
        inc = [e for e in eff if e[0] == "ninc" and e[3] == 1]
        okf = len(setm) == 1 and len(seta) == 1 and setm[0][3] == seta[0][3] and len(inc) == 1 and inc[0][1] == setm[0][6] and _keyfun(ast.parse(setm[0][2], mode="eval").body)[0] == "ROW"
        if not okf:
            # the same numbering written as `n = len(mapping); mapping[leaf] = n; association[rows] = n`
            blk = _block_of(s1)
            names = {src_of(x.value) for x in blk if isinstance(x, ast.Assign) and isinstance(x.value, ast.Name) and isinstance(x.targets[0], ast.Subscript) and src_of(x.targets[0].value) in ("mapping", src_of(s1.targets[0].value))}
            if len(names) == 1 and isinstance(s1.value, ast.Name) and s1.value.id in names:
                n_ = s1.value.id
                order = [x for x in blk if isinstance(x, ast.Assign)]
                defs_n = [x for x in order if any(isinstance(t, ast.Name) and t.id == n_ for t in x.targets)]
                setm2 = [x for x in order if isinstance(x.targets[0], ast.Subscript) and src_of(x.targets[0].value) == "mapping"]
                if len(defs_n) == 1 and len(setm2) == 1 and src_of(defs_n[0].value).replace(" ", "") == "len(mapping)" and order.index(defs_n[0]) < order.index(setm2[0]) and src_of(setm2[0].value) == n_ and _keyfun(ex.norm_expr(setm2[0].targets[0].slice, mt, setm2[0]))[0] == "ROW" and not [x for x in own_nodes(mt.node) if isinstance(x, (ast.Delete,)) or (isinstance(x, ast.Call) and isinstance(x.func, ast.Attribute) and x.func.attr in ("pop", "clear", "popitem") and src_of(x.func.value) == "mapping")]:
                    okf = True
        # a leaf gets no bucket only when no training row falls into it: the facts guarding the
        # store are the binner kind and the emptiness of the very mask the rows are labelled with
        facts1 = conds_at(repo, mt, s1)
        mask_t = ast.unparse(ex.norm_expr(s1.targets[0].slice, mt, s1))
        other = []
        for t_, pol_ in facts1:
            if t_.startswith("hasattr(") and pol_:
                continue
            empt = {cond_text(f"numpy.any({mask_t})"), cond_text(f"({mask_t}).any()"), cond_text(f"({mask_t}).sum() > 0"), cond_text(f"({mask_t}).sum() == 0", False), cond_text(f"numpy.sum({mask_t}) > 0"), cond_text(f"numpy.count_nonzero({mask_t}) > 0"), cond_text(f"({mask_t}).sum()")}
            if (t_, pol_) in empt:
                continue
            other.append(f"{t_} is {pol_}")
        ck.verdict(not other, "C08.e", mt, f"guards of {src_of(s1)[:40]}", "a leaf is left without bucket only when none of the training rows falls into it", f"a leaf is given a bucket only when {other}: a leaf holding training rows can be left without local model (its rows go to the fallback model), so there is not one model per non-empty training bucket")
        ck.verdict(okf, "C08.e", mt, s1, "fit stores a fresh consecutive bucket id under the leaf id and labels the leaf's rows with it", "fit does not store the bucket id under the leaf id it labels rows with, or ids are not consecutive")
        # the leaf list: nodes without children of the fitted tree, returned as leaves_
        lp = [c for c in own_nodes_incl_lambda(mt.node) if isinstance(c, ast.ListComp) and "children_left" in src_of(c)]
        okl = False
        if len(lp) == 1 and len(lp[0].generators) == 1 and len(lp[0].generators[0].ifs) == 1:
            g = lp[0].generators[0]
            v = src_of(g.target)
            cond = ex.text(g.ifs[0], mt, stmt_of(lp[0]))
            tree = subst("binner.tree_") if p_binner == "binner" else subst(f"{p_binner}.tree_")
            forms = {ctext(f"{t_}.children_left[{v}] <= {v} and {t_}.children_right[{v}] <= {v}") for t_ in ("binner.tree_", "self.binner_.tree_", "tree")} | {ctext(f"{t_}.children_left[{v}] == TREE_LEAF") for t_ in ("binner.tree_", "self.binner_.tree_", "tree")} | {ctext(f"{t_}.children_left[{v}] == -1") for t_ in ("binner.tree_", "self.binner_.tree_", "tree")}
            it_ = ex.text(g.iter, mt, stmt_of(lp[0]))
            okl = cond in forms and src_of(lp[0].elt) == v and it_ in {ctext(f"range(len({t_}.children_left))") for t_ in ("binner.tree_", "self.binner_.tree_", "tree")} | {ctext(f"range({t_}.node_count)") for t_ in ("binner.tree_", "self.binner_.tree_", "tree")}
        ck.verdict(okl, "C08.e", mt, lp[0] if lp else "leaves = [...]", "leaves enumerated with the shared leaf predicate over all nodes", "leaf enumeration does not use the shared leaf predicate over all nodes of the tree")
    # ---- rows start unassigned in every branch of both functions
    for fn in (mt, tb):
        rets_ = [r for r in own_nodes(fn.node) if isinstance(r, ast.Return) and r.value is not None]
        A = None
        for r in rets_:
            v = r.value.elts[0] if isinstance(r.value, ast.Tuple) else r.value
            if isinstance(v, ast.Name):
                A = v.id
        res = _init_unassigned(repo, fn, A) if A else []
        bad_ = [s_ for s_, ok in res if ok is False]
        odd_ = [s_ for s_, ok in res if ok is None]
        if bad_:
            ck.violated("C08.e", fn, bad_[0], f"{src_of(bad_[0])[:70]}: the bucket ids do not start at -1: a row no bucket claims (a leaf or a cell unseen at training time) is answered by local model {src_of(bad_[0].value)[:20]}... instead of the fallback model")
        elif odd_ or not res:
            ck.unknown("C08.e", fn, odd_[0] if odd_ else f"{fn.name}: bucket ids", f"the bucket ids are not built by allocation and fill ({src_of(odd_[0])[:70] if odd_ else 'no definition found'}): whether uncovered rows get -1 is not decided")
        else:
            ck.holds("C08.e", fn, f"{fn.name}: {len(res)} allocations of the bucket ids", "rows start unassigned (-1) wherever the ids are allocated")
    bx = [t for _, t in defs_texts(repo, tb, "binner")] if any(isinstance(n, ast.Name) and n.id == "binner" for n in ast.walk(tb.node)) else ["self.binner_"]
    ck.verdict(bx == ["self.binner_"], "C08.e", tb, f"binner = {bx}", "predict routes with the fitted binner", "transform_bins does not use the fitted binner_")


def check_weights_kept(ck, repo):
    """fit hands the caller's sample_weight on: it is not replaced (by None, by a rescaled copy)
    on the way to the local models"""
    ci = repo.cls(MOD, "PiecewiseEstimator")
    fit = ci.methods["fit"]
    if len(fit.named_params) < 4:
        return
    sw = fit.named_params[3]
    reb = []
    for st in own_nodes(fit.node):
        if isinstance(st, ast.Assign) and any(isinstance(t, ast.Name) and t.id == sw for t in st.targets):
            v = st.value
            core = v
            while True:
                if isinstance(core, ast.Call) and src_of(core.func).split(".")[-1] in ("asarray", "array", "_check_sample_weight", "check_array", "column_or_1d", "ascontiguousarray") and core.args:
                    core = core.args[0]
                elif isinstance(core, ast.Call) and isinstance(core.func, ast.Attribute) and core.func.attr in ("astype", "copy", "ravel", "to_numpy"):
                    core = core.func.value
                elif isinstance(core, ast.Attribute) and core.attr == "values":
                    core = core.value
                else:
                    break
            if not (isinstance(core, ast.Name) and core.id == sw):
                reb.append(st)
    ck.verdict(not reb, "C08.a", fit, reb[0] if reb else f"{sw} reaches the tasks as given (conversions aside)", "every local model is trained with the caller's weights for its bucket", f"fit replaces {sw} by {src_of(reb[0].value)[:50] if reb else ''} before the local models are trained: they do not receive the caller's weights for their bucket (for a regularised model, constant weights c are not the same as no weights)")


def run(ck):
    repo = ck.repo
    for k, v in RULES.items():
        ck.rule(k, v)
    check_a(ck, repo)
    check_b(ck, repo)
    check_c(ck, repo)
    check_d(ck, repo)
    check_weights_kept(ck, repo)
    check_e(ck, repo)
    ck.require_count("C08.a", 3, "co-index, mask definition, copy, receiver, weights")
    ck.require_count("C08.b", 9, "clones, task arguments, fallback, binner, predict dispatch table")
    ck.require_count("C08.c", 3, "three return pairs, scatter loop, fallback scatter")
    ck.require_count("C08.d", 6, "arguments of the fit and predict task sites (piecewise) and the interval regressor")
    ck.require_count("C08.e", 7, "tree and transformer branches at fit and predict")


_F = "mlinsights/mlmodel/piecewise_estimator.py"
WITNESSES = [
    {"name": "borrow-all-rows-of-missing-classes", "file": _F, "rule": "C08.a", "old": "                if y[ki] not in found:\n                    res.append(ki)\n                    found.add(y[ki])\n", "new": "                if y[ki] not in found:\n                    res.append(ki)\n"},
    {"name": "weights-not-reselected", "file": _F, "rule": "C08.a", "old": "        Xi = X[ind, :]\n        yi = y[ind]\n        sw = sample_weight[ind] if sample_weight is not None else None\n\n    return", "new": "        Xi = X[ind, :]\n        yi = y[ind]\n\n    return"},
    {"name": "targets-before-borrowing", "file": _F, "rule": "C08.a", "old": "        Xi = X[ind, :]\n        yi = y[ind]\n        sw = sample_weight[ind] if sample_weight is not None else None\n\n    return", "new": "        Xi = X[ind, :]\n        sw = sample_weight[ind] if sample_weight is not None else None\n\n    return"},
    {"name": "mask-ge", "file": _F, "rule": "C08.a", "old": "    sample_weight, association, nb_classes, random_state\n):\n    ind = association == i\n", "new": "    sample_weight, association, nb_classes, random_state\n):\n    ind = association >= i\n"},
    {"name": "mask-not-copied", "file": _F, "rule": "C08.a", "old": "        ind = ind.copy()\n", "new": "        ind = ind | (association == i + 1)\n"},
    {"name": "wrong-estimator-index", "file": _F, "rule": "C08.b", "old": "                i,\n                estimators[i],\n", "new": "                i,\n                estimators[0],\n"},
    {"name": "fallback-not-cloned", "file": _F, "rule": "C08.b", "old": "self.mean_estimator_ = clone(self.estimator).fit(X, y, sample_weight)", "new": "self.mean_estimator_ = estimators[0].fit(X, y, sample_weight)"},
    {"name": "fallback-wrong-method", "file": _F, "rule": "C08.b", "old": "meth = getattr(self.mean_estimator_, method)", "new": 'meth = getattr(self.mean_estimator_, "predict")'},
    {"name": "proba-uses-predict-worker", "file": _F, "rule": "C08.b", "old": '            "predict_proba",\n            _predict_proba_piecewise_estimator,', "new": '            "predict_proba",\n            _predict_piecewise_estimator,'},
    {"name": "loop-skips-last", "file": _F, "rule": "C08.b", "old": "            else range(len(estimators))\n", "new": "            else range(len(estimators) - 1)\n"},
    {"name": "shared-generator", "file": _F, "rule": "C08.d", "old": "                seeds[i],\n", "new": "                rnd,\n"},
    {"name": "task-sorts-shared-y", "file": _F, "rule": "C08.d", "old": "    Xi = X[ind, :]\n    yi = y[ind]\n    sw = sample_weight[ind] if sample_weight is not None else None\n\n    if nb_classes", "new": "    Xi = X[ind, :]\n    yi = y[ind]\n    association[ind] = -2\n    sw = sample_weight[ind] if sample_weight is not None else None\n\n    if nb_classes"},
    # (the former witness "predict-key-float", which only dropped the int32 cast at predict time, is gone: a tuple of
    # 0.0/1.0 equals and hashes like the tuple of 0/1, so that edit does not break the lookup; it is now *unknown*)
    {"name": "predict-key-truncated", "file": _F, "rule": "C08.e", "old": "                d = tuple(numpy.asarray(x.todense()).ravel().astype(numpy.int32))\n                association[i] = self.mapping_.get(d, -1)", "new": "                d = tuple(numpy.asarray(x.todense()).ravel().astype(numpy.int32)[:-1])\n                association[i] = self.mapping_.get(d, -1)"},
    {"name": "predict-unknown-zero", "file": _F, "rule": "C08.e", "old": "association[ind] = self.mapping_.get(j, -1)", "new": "association[ind] = self.mapping_.get(j, 0)"},
    {"name": "predict-init-zero", "file": _F, "rule": "C08.e", "old": "            association = numpy.zeros((X.shape[0],))\n            association[:] = -1\n            tr = binner.transform(X)\n", "new": "            association = numpy.zeros((X.shape[0],))\n            tr = binner.transform(X)\n"},
    {"name": "predict-mask-ge", "file": _F, "rule": "C08.e", "old": "            for j in self.leaves_:\n                ind = dec_path[:, j] == 1\n", "new": "            for j in self.leaves_:\n                ind = dec_path[:, j] >= 0\n"},
    {"name": "shared-generator-in-list", "file": _F, "rule": "C08.d", "old": "            seeds = rnd.randint(numpy.iinfo(numpy.int32).max, size=len(estimators))\n", "new": "            seeds = [rnd for _ in estimators]\n"},
    {"name": "apply-buffer-dtype-of-X", "file": _F, "rule": "C08.b", "old": "        pred = numpy.zeros((X.shape[0], dimout) if dimout > 1 else (X.shape[0],))\n", "new": "        pred = numpy.zeros((X.shape[0], dimout) if dimout > 1 else (X.shape[0],), dtype=X.dtype)\n"},
    {"name": "classifier-predict-argmax", "file": _F, "rule": "C08.b", "old": "        pred = self._apply_predict_method(X, \"predict\", _predict_piecewise_estimator, 1)\n        return pred.astype(numpy.int32)\n", "new": "        proba = self.predict_proba(X)\n        return numpy.argmax(proba, axis=1).astype(numpy.int32)\n"},
    {"name": "key-argmax", "file": _F, "rule": "C08.e", "old": "d = tuple(numpy.asarray(x.todense()).ravel().astype(numpy.int32))", "new": "d = (int(x.argmax()),)", "count": 3},
    {"name": "single-bucket-fast-path", "file": _F, "rule": "C08.b", "old": "        association = self.transform_bins(X)\n\n        indpred", "new": "        association = self.transform_bins(X)\n        first = int(association[0])\n        if numpy.all(association == first):\n            return getattr(self.estimators_[first], method)(X)\n\n        indpred"},
    {"name": "scatter-wrong", "file": _F, "rule": "C08.c", "old": "    return ind, est.predict_proba(X[ind, :])\n", "new": "    return association != i, est.predict_proba(X[ind, :])\n"},
]
# witnesses of the rules added after the ninth round of independent changes
WITNESSES += [
    {"name": "fallback-only-when-all-rows-missed", "file": _F, "rule": "C08.b", "old": "        if Xmissed.shape[0] > 0:\n", "new": "        if numpy.all(indall):\n"},
]


TWINS = [
    {"name": "weights-branch-explicit", "file": _F, "old": "    Xi = X[ind, :]\n    yi = y[ind]\n    sw = sample_weight[ind] if sample_weight is not None else None\n\n    if nb_classes", "new": "    Xi = X[ind, :]\n    yi = y[ind]\n    sw = None if sample_weight is None else sample_weight[ind]\n\n    if nb_classes"},
]
MIN_WITNESSES = 13
