"""C04 — predictions are a pure per-row function and survive persistence.

  C04.a  gather/scatter pairing on every predict path
  C04.b  predict-time purity: no store to self.* and no global-RNG draw is
         reachable from predict/transform/... (frozen exemptions)
  C04.c  clone_with_fitted_parameters never aliases fitted state
  C04.d  each compiled criterion class defines/inherits __getstate__ and
         __setstate__ (pickle round trip), checked on the Cython parse tree
"""

from __future__ import annotations

import ast
from typing import Dict, List, Set, Tuple

from engine.src import ClassInfo, FunctionInfo, own_nodes, own_nodes_incl_lambda, src_of, AnalysisError
from engine.util import is_self_attr, assign_targets, enclosing_stmt, const_value
from .common import estimator_classes, reachable_functions, resolve_call
from .pairing_rules import check_scatter, check_retpair, check_tuple_scatter, check_coindex

RULES = {
    "C04.g": "a batch processed in blocks is covered exactly once: in `for b in range(start, n, step)` the slice of rows [b : b + L] has L == step",
    "C04.a": "gather/scatter pairing: what is gathered with mask m is scattered back through the same value of m (def-use signatures)",
    "C04.b": "predict-time purity: no store to self.* and no global-stream draw reachable from predict/transform/decision_function/predict_proba/score",
    "C04.c": "clone_with_fitted_parameters only installs copies (recursive clone or deepcopy), never the original object",
    "C04.e": "row independence: in predict-like methods no batch statistic (a reduction over the rows of data-dependent values: unique, sort, max/min/mean/sum without axis=1, set of labels) flows into a returned value or decides the branch producing it (emptiness tests of sub-batches and the documented balanced predictions excepted)",
    "C04.f": "estimator classes keep the default pickled state (whole __dict__), or a custom __getstate__/__setstate__ returns/restores all of it on every path",
    "C04.d": "compiled criterion classes define or inherit __getstate__/__setstate__ and __reduce__-compatible constructors (Cython parse tree)",
}

PRED = ("predict", "predict_proba", "predict_log_proba", "decision_function", "transform", "score", "predict_all", "predict_sorted", "decision_path", "transform_bins", "predict_leaves", "transform_features", "get_leaves_index")

# (class name or '*', attribute) -> reason
B_EXEMPT_ATTR: Dict[Tuple[str, str], str] = {
    ("PermutationReciprocalTransformer", "knn_"): "nearest-neighbour index built lazily from permutation_; reset by fit (governed by C03.c)",
    ("PermutationReciprocalTransformer", "knn_perm_"): "companion of knn_",
    ("BaseTimeSeries", "preprocessing_"): "time-series predict(X, y) re-derives the preprocessing from the series it is given; time-series predictors are not row-wise (outside this property's scope)",
}
# module whose global-stream draws are the documented exception (balanced predictions)
B_EXEMPT_RNG_MODULES = {"mlinsights.mlmodel._kmeans_constraint_": "balanced prediction of the size-constrained k-means depends on the batch by design (documented exception in the property)"}

GLOBAL_DRAWS = {"rand", "randn", "randint", "random", "random_sample", "permutation", "shuffle", "choice", "normal", "uniform", "sample"}


def _pred_roots(repo, ci: ClassInfo) -> List[FunctionInfo]:
    out = []
    for m in PRED:
        _, fi = repo.find_method(ci, m)
        if fi is not None:
            out.append(fi)
    return out


def check_a(ck, repo):
    n = 0
    seen = set()
    for ci in estimator_classes(repo):
        roots = _pred_roots(repo, ci)
        for fi in reachable_functions(repo, roots):
            if fi.qualname in seen:
                continue
            seen.add(fi.qualname)
            ck.touch(fi)
            n += check_scatter(ck, "C04.a", repo, fi)
            n += check_retpair(ck, "C04.a", repo, fi)
            n += check_tuple_scatter(ck, "C04.a", repo, fi)
            n += check_coindex(ck, "C04.a", repo, fi, methods={"decision_path", "predict_proba", "predict", "decision_function"})
    # every normal exit of the piecewise dispatcher returns the scattered array: a shortcut for
    # batches that fall into one bucket would make a row's output depend on its batch
    try:
        ap = repo.cls("mlinsights.mlmodel.piecewise_estimator", "PiecewiseEstimator").methods["_apply_predict_method"]
        rets = [src_of(r.value) for r in own_nodes(ap.node) if isinstance(r, ast.Return)]
        n += 1
        # an exit is the single exit, or comes after the per-bucket scatter loop and is taken only when no
        # row is left for the fallback (the fallback's own guard is decided by C08.b)
        ret_nodes = [r for r in own_nodes(ap.node) if isinstance(r, ast.Return)]
        same = len(set(rets)) == 1 and all(isinstance(r.value, ast.Name) for r in ret_nodes)
        if same and len(rets) > 1:
            N_ = ret_nodes[0].value.id
            loops_ = [l_ for l_ in own_nodes(ap.node) if isinstance(l_, ast.For) and any(isinstance(x_, ast.Assign) and isinstance(x_.targets[0], ast.Subscript) and src_of(x_.targets[0].value) == N_ for x_ in ast.walk(l_))]
            end_ = max((getattr(x_, "lineno", 0) for l_ in loops_ for x_ in ast.walk(l_)), default=None)
            from .sem import conds_at as _conds_at

            def _only_empty(r_):
                cs_ = list(_conds_at(repo, ap, r_))
                return all((pol and ("== 0" in t_ or t_.startswith("not ") or "0 ==" in t_)) or (not pol and ("> 0" in t_ or ".any()" in t_ or "numpy.any(" in t_ or "0 <" in t_ or t_.endswith(".shape[0]") or t_.endswith(".size"))) for t_, pol in cs_) and bool(cs_)

            early = [r_ for r_ in ret_nodes if r_ is not ret_nodes[-1]]
            if end_ is not None and all(r_.lineno > end_ and _only_empty(r_) for r_ in early):
                rets = [N_]
        ck.verdict(rets == ["pred"] or (same and rets == [ret_nodes[0].value.id] and len(ret_nodes) > 1), "C04.a", ap, f"returns {rets}", "single exit returning the scattered predictions (same path for every batch composition)", f"_apply_predict_method returns {rets}: batches of a particular composition take a different path (no scatter, no fallback for unseen buckets), so a row's output depends on which other rows are in the batch")
    except KeyError:
        pass
    return n


def check_b(ck, repo):
    n = 0
    seen = set()
    for ci in estimator_classes(repo):
        roots = _pred_roots(repo, ci)
        mro_names = {c.qualname for c in repo.mro(ci) if isinstance(c, ClassInfo)}
        clean = True
        for fi in reachable_functions(repo, roots):
            if fi.name in ("__init__", "set_params", "fit", "_fit_l1", "_fit_parallel", "_fit_reglin", "fit_improve") and fi.cls is not None:
                # constructors of helper objects / nested fits of *other* objects are not writes to the predictor
                if fi.cls.qualname not in mro_names or fi.name in ("__init__", "set_params"):
                    continue
            # stores to self.* in methods of the predictor's own classes
            if fi.cls is not None and fi.cls.qualname in mro_names and fi.parent is None:
                sn = fi.params[0] if fi.params else "self"
                for st in own_nodes(fi.node):
                    if isinstance(st, (ast.Assign, ast.AugAssign, ast.AnnAssign, ast.Delete)):
                        tgts = assign_targets(st) if not isinstance(st, ast.Delete) else st.targets
                        for t in tgts:
                            base = t
                            while isinstance(base, ast.Subscript):
                                base = base.value
                            if is_self_attr(base, None, sn):
                                key = (fi.qualname, st.lineno, base.attr)
                                if key in seen:
                                    continue
                                seen.add(key)
                                n += 1
                                ex = B_EXEMPT_ATTR.get((fi.cls.name, base.attr))
                                if ex:
                                    ck.holds("C04.b", fi, st, f"exempt: {ex}", nontrivial=False)
                                else:
                                    clean = False
                                    ck.violated(
                                        "C04.b",
                                        fi,
                                        st,
                                        f"self.{base.attr} is written on a path reachable from {ci.name}.{'/'.join(r.name for r in roots)[:60]}: repeated or batched calls can influence each other through this state",
                                    )
            # global-stream draws
            for c in own_nodes_incl_lambda(fi.node):
                if isinstance(c, ast.Call):
                    d = repo.resolve_expr(fi.module, c.func) or ""
                    if (d.startswith("numpy.random.") and d.split(".")[-1] in GLOBAL_DRAWS) or d in ("random.random", "random.randint", "random.shuffle", "random.choice"):
                        key = (fi.qualname, c.lineno, "rng")
                        if key in seen:
                            continue
                        seen.add(key)
                        n += 1
                        ex = B_EXEMPT_RNG_MODULES.get(fi.module.name)
                        if ex:
                            ck.holds("C04.b", fi, enclosing_stmt(c), f"exempt: {ex}", nontrivial=False)
                        else:
                            clean = False
                            ck.violated("C04.b", fi, enclosing_stmt(c), f"{d} is reachable from a predict/transform method of {ci.name}: repeated calls on the same rows may disagree")
        if roots:
            n += 1
            if clean:
                ck.holds("C04.b", roots[0], f"{ci.name}: predict-reachable set", "no unexempted store to self.* and no global-stream draw")
    return n


def check_c(ck, repo, rule="C04.c"):
    fi = repo.func("mlinsights.mlmodel.sklearn_testing", "clone_with_fitted_parameters")
    ck.touch(fi)
    COPY = {"clone_with_fitted_parameters", "deepcopy", "copy.deepcopy", "clone"}
    n = 0
    # nested adjust(): every setattr(obj2, k, V)
    for g in [fi] + [f for f in repo.all_functions.values() if f.parent is fi]:
        for c in own_nodes_incl_lambda(g.node):
            if isinstance(c, ast.Call) and isinstance(c.func, ast.Name) and c.func.id == "setattr" and len(c.args) == 3:
                n += 1
                v = c.args[2]
                ok = isinstance(v, ast.Call) and (src_of(v.func) in COPY)
                if ok:
                    ck.holds(rule, g, enclosing_stmt(c), "installed value is produced by a copying call")
                else:
                    ck.violated(rule, g, enclosing_stmt(c), f"the clone receives {src_of(v)[:50]!r} itself: original and clone share fitted state, so using one changes the other")
    # every value returned is a new object built from copies
    from .sem import guarded_values

    def fresh(x: ast.AST) -> bool:
        if isinstance(x, ast.Call):
            fn = ast.unparse(x.func)
            if fn in COPY:
                return True
            if fn in ("list", "tuple", "dict", "set", "frozenset") and len(x.args) == 1:
                return fresh(x.args[0])
            return False
        if isinstance(x, (ast.GeneratorExp, ast.ListComp, ast.SetComp)):
            return fresh(x.elt)
        if isinstance(x, ast.DictComp):
            return fresh(x.value)
        if isinstance(x, (ast.List, ast.Tuple, ast.Set)):
            return all(fresh(e) for e in x.elts)
        if isinstance(x, ast.IfExp):
            return fresh(x.body) and fresh(x.orelse)
        return False

    # the helper copies a fitted attribute only when the fresh clone does not have it yet
    # (`if hasattr(obj2, k): ... adjust(...)` recurses into containers and estimators only):
    # an attribute with a fitted name created by a constructor would stay at its constructor value
    if rule == "C04.c":
        guarded_copy = any(isinstance(t, ast.If) and "hasattr(obj2" in src_of(t.test).replace(" ", "") for g in [fi] + [f for f in repo.all_functions.values() if f.parent is fi] for t in own_nodes(g.node))
        if guarded_copy:
            for ci in estimator_classes(repo):
                init = ci.methods.get("__init__")
                if init is None:
                    continue
                made = [a for a in own_nodes(init.node) if isinstance(a, ast.Attribute) and isinstance(a.ctx, ast.Store) and isinstance(a.value, ast.Name) and a.value.id == "self" and a.attr.endswith("_") and not a.attr.endswith("__") and not a.attr.startswith("_")]
                n += 1
                if made:
                    ck.violated(rule, init, enclosing_stmt(made[0]), f"{ci.name}.__init__ creates the fitted attribute self.{made[0].attr}: clone() calls the constructor, so clone_with_fitted_parameters finds the attribute already there and does not copy the fitted value: the copy answers with the constructor's value")
                else:
                    ck.holds(rule, init, f"{ci.name}.__init__ creates no fitted attribute", "fitted attributes exist only after fit, so the helper copies all of them", nontrivial=False)
    rets = [s for s in own_nodes(fi.node) if isinstance(s, ast.Return)]
    for r in rets:
        alts = guarded_values(repo, fi, r.value, r) if r.value is not None else []
        for conds, x, st in alts:
            n += 1
            if fresh(x):
                ck.holds(rule, fi, st if st is not r else r, "result is a new object built from copies")
            else:
                ck.violated(rule, fi, st if st is not r else r, f"the value returned ({ast.unparse(x)[:60]}) may be (or contain) the original object")
        if not alts:
            n += 1
            ck.violated(rule, fi, r, "returns nothing")
    return n


def check_d(ck, repo):
    from engine import cysrc

    n = 0
    files = [
        "mlinsights/mlmodel/_piecewise_tree_regression_common.pyx",
        "mlinsights/mlmodel/piecewise_tree_regression_criterion.pyx",
        "mlinsights/mlmodel/piecewise_tree_regression_criterion_fast.pyx",
        "mlinsights/mlmodel/piecewise_tree_regression_criterion_linear.pyx",
    ]
    classes = {}
    for f in files:
        if not repo.exists(f):
            raise AnalysisError(f"anchor vanished: {f}")
        mod = cysrc.parse(repo, f)
        for c in mod.classes:
            classes[c.name] = (c, f)
    if "CommonRegressorCriterion" not in classes:
        raise AnalysisError("anchor vanished: CommonRegressorCriterion")
    for name, (c, f) in sorted(classes.items()):
        # walk up the base chain inside the parsed files
        chain = [name]
        cur = c
        while cur.base and cur.base in classes:
            chain.append(cur.base)
            cur = classes[cur.base][0]
        methods = set()
        for cn in chain:
            methods |= set(classes[cn][0].methods)
        n += 1
        has = {"__getstate__", "__setstate__"} <= methods
        if has:
            ck.holds("C04.d", None, f"cdef class {name}", f"__getstate__/__setstate__ defined along {' -> '.join(chain)}", file=f, function=name, line=c.line)
        else:
            ck.violated("C04.d", None, f"cdef class {name}", f"no __getstate__/__setstate__ along {' -> '.join(chain)}: pickling a fitted PiecewiseTreeRegressor that still references the criterion fails", file=f, function=name, line=c.line)
        if "__deepcopy__" in classes[chain[-1]][0].methods or "__deepcopy__" in methods:
            ck.holds("C04.d", None, f"cdef class {name} __deepcopy__", "deepcopy hook present (used by clone_with_fitted_parameters)", file=f, function=name, line=c.line, nontrivial=False)
    return n


# ------------------------------------------------------------------ C04.f
def check_f(ck, repo):
    """a pickle round-trip gives a model with identical outputs: an estimator
    class that customises its pickled state must keep every attribute (the
    default state is the whole __dict__)"""
    from .sem import paths, ptext, RAISE

    n = 0
    for ci in estimator_classes(repo):
        custom = [m for m in ("__getstate__", "__reduce__", "__reduce_ex__", "__setstate__", "__deepcopy__", "__copy__") if m in ci.methods]
        n += 1
        if not custom:
            ck.holds("C04.f", None, f"{ci.name}: default pickling", "the pickled state is the whole __dict__", nontrivial=False, file=ci.module.relpath, function=ci.name, line=getattr(ci.node, "_orig_lineno", ci.node.lineno))
            continue
        for m in custom:
            fi = ci.methods[m]
            ok = False
            why = ""
            try:
                ps = [p for p in paths(fi) if p.ret != RAISE]
            except AnalysisError:
                ps = []
            if m == "__getstate__":
                FULL = ("self.__dict__", "self.__dict__.copy()", "dict(self.__dict__)", "BaseEstimator.__getstate__(self)", "super().__getstate__()", "dict(BaseEstimator.__getstate__(self))", "dict(super().__getstate__())")
                rets = [p.ret_text() for p in ps]
                ok = bool(ps) and all(r in FULL for r in rets) and all(not p.stores for p in ps)
                why = f"returns {sorted(set(rets))[:2]}"
            elif m == "__setstate__":
                calls_ = [[ptext(c) for c in p.calls] for p in ps]
                st = fi.named_params[1] if len(fi.named_params) > 1 else "state"
                ok = bool(ps) and all(cs in ([f"self.__dict__.update({st})"], [f"BaseEstimator.__setstate__(self, {st})"], [f"super().__setstate__({st})"]) and not p.stores for cs, p in zip(calls_, ps))
                why = f"does {calls_[:1]} and stores {[sorted(p.stores) for p in ps][:1]}"
            if ok:
                ck.holds("C04.f", fi, f"{ci.name}.{m}", "the whole state is kept / restored")
            else:
                ck.violated("C04.f", fi, f"{ci.name}.{m} {why}", f"{ci.name} customises pickling ({m}) and does not keep/restore the whole __dict__ on every path: a fitted attribute can be dropped or rebuilt from something else, so the reloaded (or deep-copied) model answers differently")
    return n


# ------------------------------------------------------------------ C04.e
# not row-wise by definition, or the documented exception
E_EXEMPT_FUNCS = {
    "score": "a score aggregates over the batch by definition",
    "ts_mape": "a metric aggregates over the batch by definition",
}
E_EXEMPT_MODULES = dict(B_EXEMPT_RNG_MODULES)
E_EXEMPT_CLASSES = {
    "BaseTimeSeries": "time-series predictors read the rows as one series (not row-wise)",
    "TimeSeriesDifference": "differencing reads consecutive rows by definition",
    "TimeSeriesDifferenceInv": "integration (cumulative sum) reads consecutive rows by definition",
    "BaseReciprocalTimeSeriesTransformer": "time-series transformer",
}
E_ROOTS = tuple(m for m in PRED if m != "score")


def check_e(ck, repo):
    from .rowwise import BatchStatistics, data_parameters
    from . import sem

    eff = sem.effects(repo)
    n = 0
    seen = set()
    for ci in estimator_classes(repo):
        if any(getattr(c, "name", None) in E_EXEMPT_CLASSES for c in repo.mro(ci)):
            continue
        roots = []
        for m in E_ROOTS:
            _, fi = repo.find_method(ci, m)
            if fi is not None:
                roots.append(fi)
        funcs = reachable_functions(repo, roots)
        dparams = data_parameters(repo, roots, funcs, resolve_call, eff._bind)
        for fi in funcs:
            data = set(dparams.get(fi.qualname, ()))
            key = (fi.qualname, tuple(sorted(data)))
            if key in seen:
                continue
            seen.add(key)
            if fi.name in E_EXEMPT_FUNCS or fi.module.name in E_EXEMPT_MODULES or fi.name in ("__init__", "set_params", "get_params", "fit", "_fit_l1", "_fit_parallel", "_fit_reglin", "fit_improve"):
                continue
            if fi.cls is not None and fi.cls.name in E_EXEMPT_CLASSES:
                continue
            if not data:
                continue
            n += 1
            found = []
            for c, msg in BatchStatistics(fi, data).findings():
                st = enclosing_stmt(c)
                if sem.holds_at(repo, fi, st, "self.balanced_predictions", True):
                    continue  # the documented exception
                found.append((st, msg))
            label = f"{fi.cls.name + '.' if fi.cls else ''}{fi.name}"
            if not found:
                ck.holds("C04.e", fi, f"{label}: no batch statistic reaches a returned value", "reductions are row-wise (axis=1, single rows) or do not depend on the data")
            for st, msg in found:
                fact = [c_ for c_ in ast.walk(st) if isinstance(c_, ast.Call) and src_of(c_.func).split(".")[-1] == "unique" and any(k_.arg == "return_inverse" and isinstance(k_.value, ast.Constant) and k_.value.value is True for k_ in c_.keywords)]
                inv_names = set()
                if fact and isinstance(st, ast.Assign) and isinstance(st.targets[0], (ast.Tuple, ast.List)) and len(st.targets[0].elts) >= 2 and isinstance(st.targets[0].elts[1], ast.Name) and st.value is fact[0]:
                    inv_names.add(st.targets[0].elts[1].id)
                if fact and inv_names:
                    # the inverse index used as a value (not as an index into a table) is the rank of
                    # the row's value among the values present in the batch
                    as_value = []
                    for n_ in own_nodes(fi.node):
                        if isinstance(n_, ast.Name) and n_.id in inv_names and isinstance(n_.ctx, ast.Load):
                            cur, child, in_index = getattr(n_, "_parent", None), n_, False
                            while cur is not None and not isinstance(cur, ast.stmt):
                                if isinstance(cur, ast.Subscript) and cur.slice is child or (isinstance(cur, ast.Subscript) and any(x is child for x in ast.walk(cur.slice))):
                                    in_index = True
                                    break
                                child, cur = cur, getattr(cur, "_parent", None)
                            if not in_index:
                                as_value.append(n_)
                    if as_value:
                        ck.violated("C04.e", fi, st, f"{label}: the inverse index of {src_of(fact[0])[:60]} is used as a value ({src_of(sem.stmt_of(as_value[0]))[:60]}): it is the rank of the row's value among the values present in the batch, so the output for a row depends on which other rows are in the batch")
                        continue
                if fact:
                    # values, inverse = unique(A, return_inverse=True): values[inverse] is A again, so a
                    # table computed per distinct value and read back through `inverse` is row-wise;
                    # whether the code uses the pair that way is not decided here
                    ck.unknown("C04.e", fi, st, f"{label}: the rows are factorised by {src_of(fact[0])[:60]}: row-wise only if every use of the distinct values is read back through the inverse index, which this rule does not follow")
                    continue
                ck.violated("C04.e", fi, st, f"{label}: {msg}: the output for a row depends on which other rows are in the batch")
    return n


def check_blocks(ck, repo):
    """C04.g: a batch cut into blocks is covered exactly.  In `for b in range(start, n, step)` a slice
    `[b : b + L]` (or `[b : min(b + L, n)]`) of the rows has L == step: a shorter slice leaves rows
    unprocessed (they keep their initial value), a longer one processes rows twice - either way the
    output for a row depends on its position in the batch."""
    from engine import norm as _norm

    from .sem import ctext

    def canon(t):
        try:
            return ctext(t)
        except Exception:
            return t.replace(" ", "")

    n = 0
    for fi in repo.all_functions.values():
        if not fi.module.relpath.startswith("mlinsights/"):
            continue
        for l in own_nodes(fi.node):
            if not (isinstance(l, ast.For) and isinstance(l.target, ast.Name) and isinstance(l.iter, ast.Call) and src_of(l.iter.func) == "range" and len(l.iter.args) == 3):
                continue
            b, step = l.target.id, src_of(l.iter.args[2])
            for sl in ast.walk(l):
                if not (isinstance(sl, ast.Slice) and sl.lower is not None and sl.upper is not None and sl.step is None and src_of(sl.lower) == b):
                    continue
                up = sl.upper
                if isinstance(up, ast.Call) and src_of(up.func) in ("min", "numpy.minimum") and up.args:
                    up = next((a for a in up.args if b in {x.id for x in ast.walk(a) if isinstance(x, ast.Name)}), up.args[0])
                if not (isinstance(up, ast.BinOp) and isinstance(up.op, (ast.Add, ast.Sub)) and b in {x.id for x in ast.walk(up) if isinstance(x, ast.Name)}):
                    continue
                n += 1
                from engine.affine import lin, LinErr

                try:
                    diff = lin(up) - lin(ast.Name(id=b, ctx=ast.Load())) - lin(l.iter.args[2])
                except LinErr:
                    ck.unknown("C04.g", fi, stmt_of_(sl), f"the length of the block [{b} : {src_of(up)}] is not an affine expression this rule evaluates")
                    continue
                exact = not diff.t and diff.c == 0
                const = not diff.t
                if not exact and not const:
                    ck.unknown("C04.g", fi, stmt_of_(sl), f"the block [{b} : {src_of(up)}] and the stride {step} differ by an expression that is not a constant")
                    continue
                ck.verdict(exact, "C04.g", fi, stmt_of_(sl), f"blocks [{b} : {src_of(up)}] follow each other every {step} rows", f"the loop advances by {step} rows but the block is [{b} : {src_of(sl.upper)}], {abs(diff.c)} row(s) {'shorter' if diff.c < 0 else 'longer'} than the stride: " + ("the last rows of every block are never processed and keep their initial value" if diff.c < 0 else "rows are processed twice") + ", so what a row gets depends on its position in the batch")
    ck.holds("C04.g", None, f"{n} block loops", "every block loop covers its rows exactly once", file="mlinsights", function="*", line=1, nontrivial=False)
    return n


def stmt_of_(n):
    p = n
    while p is not None and not isinstance(p, ast.stmt):
        p = getattr(p, "_parent", None)
    return p if p is not None else n


def run(ck):
    repo = ck.repo
    for k, v in RULES.items():
        ck.rule(k, v)
    na = check_a(ck, repo)
    nb = check_b(ck, repo)
    nc = check_c(ck, repo)
    try:
        nd = check_d(ck, repo)
    except ImportError as e:
        ck.unknown("C04.d", None, "Cython parser", f"cannot import Cython's parser: {e}", file="-", function="-", line=0)
        nd = 0
    ck.extra["rowwise_functions"] = check_e(ck, repo)
    ck.extra["block_loops"] = check_blocks(ck, repo)
    from .sem import share_clauses

    share_clauses(ck, "c15", {
        "C15.c": ("C04.h", "a transfer with copy_estimator holds its own copy of the wrapped model whatever the other options: its outputs do not change when the source model is refitted, and equal those of its pickled or cloned copies"),
    }, keep=lambda o: "copy" in (o.statement or "") + (o.detail or ""))
    share_clauses(ck, "c08", {
        "C08.e": ("C04.i", "the bucket a row is sent to at predict time is decided by the row alone (mask and key rules of the routing function): it does not depend on the row's position in the batch"),
    }, keep=lambda o: "transform_bins" in (o.function or ""))
    ck.extra["pickling_classes"] = check_f(ck, repo)
    ck.extra["pairing_instances"] = na
    ck.extra["exemptions"] = {f"{k[0]}.{k[1]}": v for k, v in B_EXEMPT_ATTR.items()}
    ck.require_count("C04.a", 5, "piecewise return pairs x3, scatter loop, fallback; DTLR predict_proba x2, decision_path x2")
    ck.require_count_in("C04.a", "_DecisionTreeLogisticRegressionNode.predict_proba", 2, "rows gathered for each child and its probabilities scattered back")
    ck.require_count_in("C04.a", "_DecisionTreeLogisticRegressionNode.decision_path", 2, "rows and indices gathered for each child")
    ck.require_count_in("C04.a", "PiecewiseEstimator._apply_predict_method", 3, "scatter loop, fallback, single exit")
    ck.require_count("C04.b", 15, "estimator classes with predict-like methods")
    ck.require_count("C04.c", 2, "setattr sites and result constructions of clone_with_fitted_parameters")
    ck.require_count("C04.d", 2, "criterion classes")
    ck.require_count("C04.f", 30, "estimator classes (default pickling)")
    ck.require_count("C04.e", 40, "predict-reachable functions with a data parameter")


# ---------------------------------------------------------------- self-test
_DT = "mlinsights/mlmodel/decision_tree_logreg.py"
_PE = "mlinsights/mlmodel/piecewise_estimator.py"
_ST = "mlinsights/mlmodel/sklearn_testing.py"
_CY = "mlinsights/mlmodel/_piecewise_tree_regression_common.pyx"
WITNESSES = [
    {"name": "dtlr-scatter-wrong-mask", "file": _DT, "rule": "C04.a", "old": "            prob[above] = prob_above\n", "new": "            prob[below] = prob_above\n"},
    {"name": "dtlr-gather-wrong-mask", "file": _DT, "rule": "C04.a", "old": "            prob_below = self.below.predict_proba(X[below])\n", "new": "            prob_below = self.below.predict_proba(X[above])\n"},
    {"name": "dtlr-path-indices-wrong-mask", "file": _DT, "rule": "C04.a", "old": "        indices_above = indices[above]\n", "new": "        indices_above = indices[below]\n"},
    {"name": "dtlr-mask-mutated-between", "file": _DT, "rule": "C04.a", "old": "            prob_above = self.above.predict_proba(X[above])\n            prob[above] = prob_above\n", "new": "            prob_above = self.above.predict_proba(X[above])\n            above[0] = True\n            prob[above] = prob_above\n"},
    {"name": "piecewise-return-other-mask", "file": _PE, "rule": "C04.a", "old": "    return ind, est.predict(X[ind, :])\n", "new": "    ind2 = association >= i\n    return ind, est.predict(X[ind2, :])\n"},
    {"name": "piecewise-fallback-mask-changed", "file": _PE, "rule": "C04.a", "old": "        indall = numpy.logical_not(indall)\n        Xmissed = X[indall]\n", "new": "        Xmissed = X[indall]\n        indall = numpy.logical_not(indall)\n"},
    {"name": "piecewise-scatter-swapped-pair", "file": _PE, "rule": "C04.a", "old": "            pred[ind] = p\n", "new": "            pred[p] = ind\n"},
    {"name": "dtlr-break-skips-other-side", "file": _DT, "rule": "C04.a", "old": "        if self.above is not None and n_above > 0:\n            prob_above = self.above.predict_proba(X[above])\n            prob[above] = prob_above\n        if self.below is not None and n_below > 0:\n            prob_below = self.below.predict_proba(X[below])\n            prob[below] = prob_below\n", "new": "        for child, side in ((self.above, above), (self.below, below)):\n            if child is None or not side.any():\n                break\n            prob[side] = child.predict_proba(X[side])\n"},
    {"name": "piecewise-predict-stores-state", "file": _PE, "rule": "C04.b", "old": "        association = self.transform_bins(X)\n\n        indpred", "new": "        association = self.transform_bins(X)\n        self.last_association_ = association\n\n        indpred"},
    {"name": "interval-predict-global-rng", "file": "mlinsights/mlmodel/interval_regressor.py", "rule": "C04.b", "old": "        preds = self.predict_all(X)\n        return preds.mean(axis=1)\n", "new": "        preds = self.predict_all(X)\n        preds = preds[:, numpy.random.permutation(preds.shape[1])]\n        return preds.mean(axis=1)\n"},
    {"name": "kmeansl1-predict-caches", "file": "mlinsights/mlmodel/kmeans_l1.py", "rule": "C04.b", "old": "        labels = labels.astype(numpy.int32, copy=False)\n", "new": "        labels = labels.astype(numpy.int32, copy=False)\n        self.last_labels_ = labels\n"},
    {"name": "clone-fitted-shares-state", "file": _ST, "rule": "C04.c", "old": "                    v1 = getattr(obj1, k)\n                    setattr(obj2, k, clone_with_fitted_parameters(v1))\n                else:\n                    raise RuntimeError(f\"Cloned", "new": "                    v1 = getattr(obj1, k)\n                    setattr(obj2, k, v1)\n                else:\n                    raise RuntimeError(f\"Cloned"},
    {"name": "clone-fitted-returns-same-list", "file": _ST, "rule": "C04.c", "old": "        res = list(clone_with_fitted_parameters(o) for o in est)\n", "new": "        res = list(o for o in est)\n"},
    {"name": "ptr-leaves-ranked-in-batch", "file": "mlinsights/mlmodel/piecewise_tree_regression.py", "rule": "C04.e", "old": "        mat = numpy.argmax(leaves, 1)\n        res = numpy.asarray(mat).ravel()\n", "new": "        mat = numpy.argmax(leaves, 1)\n        _, res = numpy.unique(numpy.asarray(mat).ravel(), return_inverse=True)\n"},
    {"name": "interval-predict-centred-on-batch", "file": "mlinsights/mlmodel/interval_regressor.py", "rule": "C04.e", "old": "        preds = self.predict_all(X)\n        return preds.mean(axis=1)\n", "new": "        preds = self.predict_all(X)\n        preds = preds - preds.mean(axis=0)\n        return preds.mean(axis=1)\n"},
    {"name": "interval-sorted-over-rows", "file": "mlinsights/mlmodel/interval_regressor.py", "rule": "C04.e", "old": "        for i in range(preds.shape[0]):\n            preds[i, :] = numpy.sort(preds[i, :])\n        return preds\n", "new": "        preds = numpy.sort(preds, axis=0)\n        return preds\n"},
    {"name": "interval-shortcut-on-batch-max", "file": "mlinsights/mlmodel/interval_regressor.py", "rule": "C04.e", "old": "        preds = self.predict_all(X)\n        return preds.mean(axis=1)\n", "new": "        preds = self.predict_all(X)\n        if preds.max() <= 0:\n            return preds[:, 0]\n        return preds.mean(axis=1)\n"},
    {"name": "ckm-init-creates-fitted-attr", "file": "mlinsights/mlmodel/kmeans_constraint.py", "rule": "C04.c", "old": "        self._n_threads = 1\n", "new": "        self._n_threads = 1\n        self.weights_ = None\n"},
    {"name": "transfer-pickle-drops-copy", "file": "mlinsights/mlmodel/transfer_transformer.py", "rule": "C04.f", "old": "    def transform(self, X):", "new": "    def __getstate__(self):\n        state = dict(self.__dict__)\n        state[\"estimator_\"] = None\n        return state\n\n    def transform(self, X):"},
    {"name": "criterion-no-getstate", "file": _CY, "rule": "C04.d", "old": "    def __getstate__(self):", "new": "    def _getstate_disabled(self):"},
]
# witnesses of the rules added after the ninth round (C04.g has no instance on the pinned tree:
# the first witness is its positive example, the second the twin that must stay silent)
_PE = "mlinsights/mlmodel/piecewise_estimator.py"
_ROWLOOP = "            for i, x in enumerate(tr):\n                d = tuple(numpy.asarray(x.todense()).ravel().astype(numpy.int32))\n                association[i] = self.mapping_.get(d, -1)\n"
WITNESSES += [
    {"name": "blocks-one-row-short", "file": _PE, "rule": "C04.g", "old": _ROWLOOP, "new": "            step = 256\n            for begin in range(0, X.shape[0], step):\n                rows = tr[begin : begin + step - 1].toarray().astype(numpy.int32)\n                for i, x in enumerate(rows):\n                    association[begin + i] = self.mapping_.get(tuple(x), -1)\n"},
    {"name": "positions-tested-for-truth", "file": _PE, "rule": "C04.i", "old": "            for j in self.leaves_:\n                ind = dec_path[:, j] == 1\n                ind = numpy.asarray(ind.todense()).flatten()\n", "new": "            for j in self.leaves_:\n                ind = (dec_path[:, j] == 1).nonzero()[0]\n"},
]


TWINS = [
    {"name": "dtlr-loop-over-sides-continue", "file": _DT, "old": "        if self.above is not None and n_above > 0:\n            prob_above = self.above.predict_proba(X[above])\n            prob[above] = prob_above\n        if self.below is not None and n_below > 0:\n            prob_below = self.below.predict_proba(X[below])\n            prob[below] = prob_below\n", "new": "        for child, side in ((self.above, above), (self.below, below)):\n            if child is None or not side.any():\n                continue\n            prob[side] = child.predict_proba(X[side])\n"},
    {"name": "dtlr-local-mask-alias-free", "file": _DT, "old": "            prob_above = self.above.predict_proba(X[above])\n            prob[above] = prob_above\n", "new": "            prob[above] = self.above.predict_proba(X[above])\n"},
    {"name": "interval-sorted-rowwise-axis", "file": "mlinsights/mlmodel/interval_regressor.py", "old": "        for i in range(preds.shape[0]):\n            preds[i, :] = numpy.sort(preds[i, :])\n        return preds\n", "new": "        preds = numpy.sort(preds, axis=1)\n        return preds\n"},
    {"name": "interval-mean-by-sum", "file": "mlinsights/mlmodel/interval_regressor.py", "old": "        return preds.mean(axis=1)\n", "new": "        return preds.sum(axis=1) / preds.shape[1]\n"},
    {"name": "interval-empty-batch-shortcut", "file": "mlinsights/mlmodel/interval_regressor.py", "old": "        preds = self.predict_all(X)\n        return preds.mean(axis=1)\n", "new": "        preds = self.predict_all(X)\n        if preds.shape[0] == 0:\n            return numpy.empty((0,))\n        return preds.mean(axis=1)\n"},
    {"name": "piecewise-return-parenthesised", "file": _PE, "old": "    return ind, est.predict(X[ind, :])\n", "new": "    Xi = X[ind, :]\n    return (ind, est.predict(Xi))\n"},
    {"name": "piecewise-fallback-renamed", "file": _PE, "old": "        Xmissed = X[indall]\n        if Xmissed.shape[0] > 0:\n            meth = getattr(self.mean_estimator_, method)\n            missed = meth(Xmissed)\n            pred[indall] = missed\n", "new": "        Xrest = X[indall]\n        if Xrest.shape[0] > 0:\n            meth = getattr(self.mean_estimator_, method)\n            pred[indall] = meth(Xrest)\n"},
]
MIN_WITNESSES = 10
