"""C10 — DecisionTreeLogisticRegression is a consistent tree of binary classifiers.

  C10.a  one routing predicate: the four sites that split rows (predict_proba,
         decision_path, fit, fit_improve) compute, after canonicalisation, the
         same predicate prob[:, 1] > self.threshold and its complement; the two
         read-side traversals guard the recursion identically
  C10.b  gather/scatter pairing in the traversals; decision_path marks the
         node's own index for exactly the indices it was given, before routing
  C10.c  depth and indices: child depth = self.depth + 1 after the max_depth
         guard; first child index self.index + 1, second last + 1; the returned
         value is the last index handed out; n_nodes_ = that + 1
  C10.d  predict = classes_ taken at (prob[:, 1] >= 0.5); the positive class at
         fit is classes_[1]; every node classifier is a clone
"""

from __future__ import annotations

import ast
from typing import Dict, List, Optional

from engine.src import FunctionInfo, own_nodes, own_nodes_incl_lambda, src_of, AnalysisError
from engine.util import is_self_attr, kwarg, enclosing_tests, enclosing_stmt
from engine import norm
from .pairing_rules import check_scatter, check_coindex

RULES = {
    "C10.a": "the four routing sites compute the same canonical predicate and complement; read-side recursion guards agree",
    "C10.b": "gather/scatter pairing in predict_proba/decision_path; the node's own index is marked for the given indices before routing",
    "C10.c": "child depth/index arithmetic and the max_depth guard; n_nodes_ = last index + 1",
    "C10.d": "predict/classes_ agreement (threshold 0.5, positive class classes_[1]); node classifiers are clones",
}

MOD = "mlinsights.mlmodel.decision_tree_logreg"
NODE = "_DecisionTreeLogisticRegressionNode"


def _assign(fn: ast.AST, name: str) -> List[ast.Assign]:
    out = [s for s in own_nodes(fn) if isinstance(s, ast.Assign) and len(s.targets) == 1 and src_of(s.targets[0]) == name]
    out.sort(key=lambda s: s.lineno)
    return out


def check_a(ck, repo):
    ci = repo.cls(MOD, NODE)
    sites = {}
    for m in ("predict_proba", "decision_path", "fit", "fit_improve"):
        fi = ci.methods.get(m)
        if fi is None:
            raise AnalysisError(f"anchor vanished: {NODE}.{m}")
        ab, be = _assign(fi.node, "above"), _assign(fi.node, "below")
        if len(ab) != 1 or len(be) != 1:
            ck.unknown("C10.a", fi, "above = ...; below = ...", f"routing masks not found ({len(ab)}, {len(be)})")
            continue
        sites[m] = (fi, ab[0], be[0])
    ref = "prob[:, 1] > self.threshold"
    want = norm.dump(ast.parse(ref, mode="eval").body, rename=False)
    for m, (fi, ab, be) in sites.items():
        got = norm.dump(ab.value, rename=False)
        ck.verdict(got == want, "C10.a", fi, ab, "routing predicate is prob[:, 1] > self.threshold (canonical form)", f"{m} routes rows with {src_of(ab.value)!r}; the other traversals use {ref!r}: rows follow different paths at fit, predict and decision_path (ties at the threshold included)")
        comp = src_of(be.value) in ("~above", "numpy.logical_not(above)") or norm.dump(be.value, rename=False) == norm.dump(ast.parse("prob[:, 1] <= self.threshold", mode="eval").body, rename=False)
        ck.verdict(comp, "C10.a", fi, be, "the other side is the exact complement", f"{m}: 'below' is {src_of(be.value)!r}, not the complement of 'above': some rows go to both sides or to none")
        # prob comes from this node's estimator on the rows at hand
        pr = _assign(fi.node, "prob")
        if m in ("predict_proba", "decision_path"):
            ck.verdict(len(pr) == 1 and src_of(pr[0].value) == "self.estimator.predict_proba(X)", "C10.a", fi, pr[0] if pr else "prob = ...", "probabilities of this node's classifier on the rows given", f"{m}: prob is {src_of(pr[0].value) if pr else None}")
    # read-side recursion guards
    guards = {}
    for m in ("predict_proba", "decision_path"):
        if m not in sites:
            continue
        fi = sites[m][0]
        g = []
        for s in own_nodes(fi.node):
            if isinstance(s, ast.If):
                body_calls = [c for c in ast.walk(s) if isinstance(c, ast.Call) and isinstance(c.func, ast.Attribute) and c.func.attr == m]
                if body_calls:
                    g.append((src_of(s.test), src_of(body_calls[0].func.value)))
        guards[m] = sorted(g)
        want_g = sorted([("self.above is not None and n_above > 0", "self.above"), ("self.below is not None and n_below > 0", "self.below")])
        ck.verdict(sorted(g) == want_g, "C10.a", fi, f"recursion guards {g}", "recursion into a child iff it exists and receives rows", f"{m}: recursion guards are {g}, expected {want_g}")
        for side in ("above", "below"):
            cnt = _assign(fi.node, f"n_{side}")
            ck.verdict(len(cnt) == 1 and src_of(cnt[0].value) == f"{side}.sum()", "C10.a", fi, cnt[0] if cnt else f"n_{side} = {side}.sum()", f"n_{side} counts the rows routed {side}", f"{m}: n_{side} is not {side}.sum()")
    if len(guards) == 2:
        a = [(t, r) for t, r in guards["predict_proba"]]
        b = [(t, r) for t, r in guards["decision_path"]]
        ck.verdict(a == b, "C10.a", sites["decision_path"][0], "sibling guards", "predict_proba and decision_path recurse under identical guards", f"guards differ: {a} vs {b}")


def check_b(ck, repo):
    ci = repo.cls(MOD, NODE)
    pp, dp = ci.methods["predict_proba"], ci.methods["decision_path"]
    n = check_scatter(ck, "C10.b", repo, pp)
    n += check_coindex(ck, "C10.b", repo, dp, methods={"decision_path"}, min_args=2)
    if n < 4:
        ck.violated("C10.b", pp, "prob[mask] = child.predict_proba(X[mask]) / child.decision_path(X[mask], mat, indices[mask])", f"only {n} of the 4 gather/scatter pairs of the traversals were found")
    # mark own index first
    body = [s for s in dp.node.body if not (isinstance(s, ast.Expr) and isinstance(s.value, ast.Constant))]
    first = body[0] if body else None
    ck.verdict(first is not None and src_of(first) == "mat[indices, self.index] = 1", "C10.b", dp, first if first is not None else "mat[indices, self.index] = 1", "the node marks its own column for exactly the rows it was given, before routing", "decision_path does not start by marking mat[indices, self.index] = 1")
    for side in ("above", "below"):
        d = _assign(dp.node, f"indices_{side}")
        ck.verdict(len(d) == 1 and src_of(d[0].value) == f"indices[{side}]", "C10.b", dp, d[0] if d else f"indices_{side} = indices[{side}]", f"row ids sent {side} are the ids of the rows sent {side}", f"indices_{side} is not indices[{side}]")
        calls = [c for c in own_nodes_incl_lambda(dp.node) if isinstance(c, ast.Call) and src_of(c.func) == f"self.{side}.decision_path"]
        ck.verdict(len(calls) == 1 and [src_of(a) for a in calls[0].args] == [f"X[{side}]", "mat", f"indices_{side}"], "C10.b", dp, calls[0] if calls else f"self.{side}.decision_path(...)", f"child {side} receives its rows, the shared matrix and their ids", f"child {side} is called with {[src_of(a) for a in calls[0].args] if calls else None}")
    # public decision_path: matrix of n_nodes_ columns and arange indices
    pub = repo.cls(MOD, "DecisionTreeLogisticRegression").methods["decision_path"]
    t = [src_of(s) for s in own_nodes(pub.node) if isinstance(s, (ast.Assign, ast.Expr, ast.Return))]
    ck.verdict(any("sparse.lil_matrix((X.shape[0], self.n_nodes_)" in x for x in t) and "self.tree_.decision_path(X, mat, numpy.arange(X.shape[0]))" in t, "C10.b", pub, "mat = lil_matrix((n, n_nodes_)); tree_.decision_path(X, mat, arange(n))", "one column per node, row ids 0..n-1", "public decision_path does not allocate (n_rows, n_nodes_) or does not start from arange(n_rows)")


def check_c(ck, repo):
    ci = repo.cls(MOD, NODE)
    fit = ci.methods["fit"]
    side = repo.nested(fit, "_fit_side")
    # guard before any child creation
    ifs = [s for s in fit.node.body if isinstance(s, ast.If)]
    g = [s for s in ifs if src_of(s.test) == "self.depth + 1 > dtlr.max_depth"]
    ok = len(g) == 1 and len(g[0].body) == 1 and src_of(g[0].body[0]) == "return self.index"
    ck.verdict(ok, "C10.c", fit, g[0].test if g else "if self.depth + 1 > dtlr.max_depth: return self.index", "no child is created when it would exceed max_depth", "the max_depth guard `self.depth + 1 > dtlr.max_depth -> return self.index` is missing or altered: the tree can be deeper than max_depth")
    if g:
        calls = [c for c in own_nodes_incl_lambda(fit.node) if isinstance(c, ast.Call) and src_of(c.func) == "_fit_side"]
        ck.verdict(bool(calls) and all(c.lineno > g[0].lineno for c in calls), "C10.c", fit, "_fit_side calls after the depth guard", "children are only built after the guard", "a child is built before the depth guard")
    # min_samples_split guard
    g2 = [s for s in ifs if src_of(s.test) == "X.shape[0] < dtlr.min_samples_split"]
    ck.verdict(len(g2) == 1 and src_of(g2[0].body[0]) == "return self.index", "C10.c", fit, g2[0].test if g2 else "if X.shape[0] < dtlr.min_samples_split", "no split below min_samples_split", "the min_samples_split guard is missing or altered")
    # child construction
    ctor = [c for c in own_nodes_incl_lambda(side.node) if isinstance(c, ast.Call) and src_of(c.func) == NODE]
    if len(ctor) != 1:
        ck.unknown("C10.c", side, f"{NODE}(...)", "child construction not found")
    else:
        c = ctor[0]
        d, ix = kwarg(c, "depth"), kwarg(c, "index")
        ck.verdict(d is not None and src_of(d) == "self.depth + 1", "C10.c", side, f"depth={src_of(d) if d is not None else None}", "child depth is parent depth + 1", "child depth is not self.depth + 1: tree_depth_ and the max_depth guard no longer describe the tree")
        ck.verdict(ix is not None and src_of(ix) == "index", "C10.c", side, f"index={src_of(ix) if ix is not None else None}", "child gets the index reserved for it", "child index is not the one passed to _fit_side")
        thr = c.args[1] if len(c.args) > 1 else kwarg(c, "threshold")
        ck.verdict(thr is not None and src_of(thr) == "self.threshold", "C10.c", side, f"threshold={src_of(thr) if thr is not None else None}", "children route with the same threshold", "children use another threshold")
        est = c.args[0] if c.args else None
        e = _assign(side.node, "estimator")
        ck.verdict(est is not None and src_of(est) == "estimator" and len(e) == 1 and src_of(e[0].value) == "clone(dtlr.estimator)", "C10.c", side, e[0] if e else "estimator = clone(dtlr.estimator)", "each child trains a fresh clone of the base estimator", "a child does not get its own clone of dtlr.estimator")
    # recursive fit returns the last index; returned pair
    rets = [src_of(r.value) for r in own_nodes(side.node) if isinstance(r, ast.Return) and r.value is not None]
    ck.verdict(sorted(rets) == sorted(["(node, last_index)", "(None, index)"]), "C10.c", side, f"returns {rets}", "_fit_side returns (child, last index used) or (None, index)", f"_fit_side returns {rets}")
    li = _assign(side.node, "last_index")
    if li:
        a = [src_of(x) for x in li[0].value.args] if isinstance(li[0].value, ast.Call) else []
        ck.verdict(src_of(li[0].value.func) == "node.fit" and a == ["X[above_below]", "y[above_below]", "sw", "dtlr", "total_N"], "C10.c", side, li[0], "the child is fitted on its side's rows, targets and weights", f"child fit arguments are {a}")
        sw = _assign(side.node, "sw")
        ck.verdict(len(sw) == 1 and src_of(sw[0].value) == "sample_weight[above_below] if sample_weight is not None else None", "C10.c", side, sw[0] if sw else "sw = sample_weight[above_below] ...", "weights follow the rows", "child weights are not sample_weight[above_below]")
    # the two calls: first index self.index + 1, second last + 1, both sides consistent
    asg = [s for s in fit.node.body if isinstance(s, ast.Assign) and isinstance(s.value, ast.Call) and src_of(s.value.func) == "_fit_side"]
    if len(asg) != 2:
        ck.unknown("C10.c", fit, "_fit_side(...) x2", f"{len(asg)} child constructions")
    else:
        a0 = [src_of(x) for x in asg[0].value.args]
        a1 = [src_of(x) for x in asg[1].value.args]
        t0, t1 = src_of(asg[0].targets[0]), src_of(asg[1].targets[0])
        ck.verdict(a0[:4] == ["self.index + 1", "y_above", "above", "n_above"] and t0 == "(self.above, last)", "C10.c", fit, asg[0], "first child: index self.index + 1, the 'above' rows, stored as self.above", f"first child is built with {a0[:4]} into {t0}")
        ck.verdict(a1[:4] == ["last + 1", "y_below", "below", "n_below"] and t1 == "(self.below, last)", "C10.c", fit, asg[1], "second child: index last + 1, the 'below' rows, stored as self.below", f"second child is built with {a1[:4]} into {t1}: indices may collide or sides be exchanged")
        last_ret = [s for s in fit.node.body if isinstance(s, ast.Return)]
        ck.verdict(bool(last_ret) and src_of(last_ret[-1].value) == "last", "C10.c", fit, last_ret[-1] if last_ret else "return last", "fit returns the last index handed out", "node.fit does not return the last index used")
    for nm, expr in (("y_above", "set(y[above])"), ("y_below", "set(y[below])")):
        d = _assign(fit.node, nm)
        ck.verdict(len(d) == 1 and src_of(d[0].value) == expr, "C10.c", fit, d[0] if d else f"{nm} = {expr}", f"{nm} are the labels of its own side", f"{nm} is not {expr}")
    # n_nodes_
    top = repo.cls(MOD, "DecisionTreeLogisticRegression")
    fp = top.methods["_fit_parallel"]
    nn = [s for s in own_nodes(fp.node) if isinstance(s, ast.Assign) and any(is_self_attr(t, "n_nodes_") for t in s.targets)]
    ok = len(nn) == 1 and isinstance(nn[0].value, ast.BinOp) and isinstance(nn[0].value.op, ast.Add) and src_of(nn[0].value.right) == "1" and src_of(nn[0].value.left).startswith("self.tree_.fit(")
    ck.verdict(ok, "C10.c", fp, nn[0] if nn else "self.n_nodes_ = self.tree_.fit(...) + 1", "n_nodes_ = last index + 1 (indices start at 0)", "n_nodes_ is not the last index + 1: node indices are not all below n_nodes_")
    root = [s for s in own_nodes(fp.node) if isinstance(s, ast.Assign) and any(is_self_attr(t, "tree_") for t in s.targets)]
    ck.verdict(len(root) == 1 and src_of(root[0].value) == f"{NODE}(estimator, 0.5)", "C10.c", fp, root[0] if root else "self.tree_ = ...", "root has the default depth 1 and index 0, threshold 0.5", "root is not built with the default depth/index and threshold 0.5")
    init = repo.cls(MOD, NODE).methods["__init__"]
    defaults = [src_of(d) for d in init.node.args.defaults]
    ck.verdict(init.named_params[1:] == ["estimator", "threshold", "depth", "index"] and defaults == ["0.5", "1", "0"], "C10.c", init, f"defaults {defaults}", "node defaults: threshold 0.5, depth 1, index 0", f"node defaults are {defaults}")
    # tree_depth_ and enumerate_leaves_index
    td = repo.cls(MOD, NODE)
    el = td.methods["enumerate_leaves_index"]
    t = src_of(el.node.body[-3].test) if len(el.node.body) >= 3 and isinstance(el.node.body[-3], ast.If) else ""
    ck.verdict(t == "self.above is None or self.below is None", "C10.c", el, t or "if self.above is None or self.below is None: yield self.index", "a node where some rows stop is listed as terminal", "terminal-node test changed: get_leaves_index no longer lists every node where a path can end")


def check_d(ck, repo):
    top = repo.cls(MOD, "DecisionTreeLogisticRegression")
    node = repo.cls(MOD, NODE)
    pr = top.methods["predict"]
    t = [src_of(s) for s in sorted((x for x in own_nodes(pr.node) if isinstance(x, (ast.Assign, ast.Return))), key=lambda x: x.lineno)]
    ck.verdict(t == ["labels = self.tree_.predict(X)", "return numpy.take(self.classes_, labels)"], "C10.d", pr, "; ".join(t), "predict = classes_ taken at the node prediction", "predict is not numpy.take(self.classes_, tree_.predict(X))")
    np_ = node.methods["predict"]
    t = [src_of(s) for s in sorted((x for x in own_nodes(np_.node) if isinstance(x, (ast.Assign, ast.Return))), key=lambda x: x.lineno)]
    ck.verdict(t == ["prob = self.predict_proba(X)", "return (prob[:, 1] >= 0.5).astype(numpy.int32)"], "C10.d", np_, "; ".join(t), "label index = [P(class 1) >= 0.5] from the same probabilities predict_proba returns", "node prediction is not (predict_proba(X)[:, 1] >= 0.5)")
    pp = top.methods["predict_proba"]
    t = [src_of(s) for s in own_nodes(pp.node) if isinstance(s, ast.Return)]
    ck.verdict(t == ["return self.tree_.predict_proba(X)"], "C10.d", pp, "; ".join(t), "predict_proba is the tree's", "public predict_proba is not tree_.predict_proba(X)")
    fp = top.methods["_fit_parallel"]
    cl = [s for s in own_nodes(fp.node) if isinstance(s, ast.Assign) and src_of(s.targets[0]) == "cls"]
    ck.verdict(len(cl) == 1 and src_of(cl[0].value) == "(y == self.classes_[1]).astype(numpy.int32)", "C10.d", fp, cl[0] if cl else "cls = (y == self.classes_[1])", "the positive class of every node classifier is classes_[1] (probability column 1)", "the binary target is not (y == classes_[1]): probability column 1 and classes_[1] disagree")
    fit = top.methods["fit"]
    c = [s for s in own_nodes(fit.node) if isinstance(s, ast.Assign) and any(is_self_attr(t, "classes_") for t in s.targets)]
    ck.verdict(len(c) == 1 and src_of(c[0].value) == "numpy.array(sorted(set(y)))", "C10.d", fit, c[0] if c else "self.classes_ = ...", "classes_ are the sorted distinct labels", "classes_ is not the sorted set of labels")
    e = [s for s in own_nodes(fp.node) if isinstance(s, ast.Assign) and src_of(s.targets[0]) == "estimator"]
    ck.verdict(len(e) == 1 and src_of(e[0].value) == "clone(self.estimator)", "C10.d", fp, e[0] if e else "estimator = clone(self.estimator)", "the root classifier is a clone of the hyper-parameter", "the root trains the estimator given as hyper-parameter in place")
    fitc = [c for c in own_nodes_incl_lambda(fp.node) if isinstance(c, ast.Call) and src_of(c.func) == "self.tree_.fit"]
    ck.verdict(len(fitc) == 1 and [src_of(a) for a in fitc[0].args] == ["X", "cls", "sample_weight", "self", "X.shape[0]"], "C10.d", fp, fitc[0] if fitc else "self.tree_.fit(X, cls, sample_weight, self, X.shape[0])", "root fitted on (X, binary target, weights)", "root fit arguments changed")


def run(ck):
    repo = ck.repo
    for k, v in RULES.items():
        ck.rule(k, v)
    check_a(ck, repo)
    check_b(ck, repo)
    check_c(ck, repo)
    check_d(ck, repo)
    ck.require_count("C10.a", 10, "4 predicates, 4 complements, 2 prob sources, guards and counts of the two traversals, sibling agreement")
    ck.require_count("C10.b", 6, "4 pairs, own index, indices and child calls x2, public allocation")
    ck.require_count("C10.c", 10, "guards, child construction, index arithmetic, n_nodes_, defaults")
    ck.require_count("C10.d", 4, "predict, node predict, predict_proba, positive class, classes_, root clone, root fit")


_F = "mlinsights/mlmodel/decision_tree_logreg.py"
WITNESSES = [
    {"name": "predict-route-ge", "file": _F, "rule": "C10.a", "old": "        prob = self.estimator.predict_proba(X)\n        above = prob[:, 1] > self.threshold\n        below = ~above\n        n_above = above.sum()\n        n_below = below.sum()\n        if self.above is not None and n_above > 0:\n            prob_above", "new": "        prob = self.estimator.predict_proba(X)\n        above = prob[:, 1] >= self.threshold\n        below = ~above\n        n_above = above.sum()\n        n_below = below.sum()\n        if self.above is not None and n_above > 0:\n            prob_above"},
    {"name": "path-route-column0", "file": _F, "rule": "C10.a", "old": "        mat[indices, self.index] = 1\n        prob = self.estimator.predict_proba(X)\n        above = prob[:, 1] > self.threshold\n", "new": "        mat[indices, self.index] = 1\n        prob = self.estimator.predict_proba(X)\n        above = prob[:, 0] < self.threshold\n"},
    {"name": "fit-route-fixed-half", "file": _F, "rule": "C10.a", "old": "            return self.index\n\n        above = prob[:, 1] > self.threshold\n", "new": "            return self.index\n\n        above = prob[:, 1] > 0.5\n"},
    {"name": "below-not-complement", "file": _F, "rule": "C10.a", "old": "        above = prob[:, 1] > self.threshold\n        below = ~above\n        n_above = above.sum()\n        n_below = below.sum()\n        indices_above", "new": "        above = prob[:, 1] > self.threshold\n        below = prob[:, 1] < self.threshold\n        n_above = above.sum()\n        n_below = below.sum()\n        indices_above"},
    {"name": "path-guard-differs", "file": _F, "rule": "C10.a", "old": "        if self.above is not None and n_above > 0:\n            self.above.decision_path", "new": "        if self.above is not None and n_above > 1:\n            self.above.decision_path"},
    {"name": "path-mark-after-routing", "file": _F, "rule": "C10.b", "old": "        mat[indices, self.index] = 1\n        prob = self.estimator.predict_proba(X)\n", "new": "        prob = self.estimator.predict_proba(X)\n        mat[indices[prob[:, 1] > 0], self.index] = 1\n"},
    {"name": "path-wrong-ids", "file": _F, "rule": "C10.b", "old": "        indices_below = indices[below]\n", "new": "        indices_below = indices[above]\n"},
    {"name": "proba-scatter-swapped", "file": _F, "rule": "C10.b", "old": "            prob[below] = prob_below\n", "new": "            prob[above] = prob_below\n"},
    {"name": "child-depth-same", "file": _F, "rule": "C10.c", "old": "estimator, self.threshold, depth=self.depth + 1, index=index", "new": "estimator, self.threshold, depth=self.depth, index=index"},
    {"name": "depth-guard-off-by-one", "file": _F, "rule": "C10.c", "old": "        if self.depth + 1 > dtlr.max_depth:\n", "new": "        if self.depth > dtlr.max_depth:\n"},
    {"name": "second-child-index-collides", "file": _F, "rule": "C10.c", "old": '_fit_side(last + 1, y_below, below, n_below, "below")', "new": '_fit_side(self.index + 2, y_below, below, n_below, "below")'},
    {"name": "n-nodes-no-plus-one", "file": _F, "rule": "C10.c", "old": "self.tree_.fit(X, cls, sample_weight, self, X.shape[0]) + 1", "new": "self.tree_.fit(X, cls, sample_weight, self, X.shape[0])"},
    {"name": "child-no-clone", "file": _F, "rule": "C10.c", "old": "                estimator = clone(dtlr.estimator)\n", "new": "                estimator = dtlr.estimator\n"},
    {"name": "sides-exchanged", "file": _F, "rule": "C10.c", "old": '_fit_side(self.index + 1, y_above, above, n_above, "above")', "new": '_fit_side(self.index + 1, y_above, below, n_above, "above")'},
    {"name": "predict-gt-half", "file": _F, "rule": "C10.d", "old": "return (prob[:, 1] >= 0.5).astype(numpy.int32)", "new": "return (prob[:, 1] > 0.5).astype(numpy.int32)"},
    {"name": "positive-class-zero", "file": _F, "rule": "C10.d", "old": "cls = (y == self.classes_[1]).astype(numpy.int32)", "new": "cls = (y == self.classes_[0]).astype(numpy.int32)"},
    {"name": "root-no-clone", "file": _F, "rule": "C10.d", "old": "        estimator = clone(self.estimator)\n", "new": "        estimator = self.estimator\n"},
]
TWINS = [
    {"name": "route-flipped-comparison", "file": _F, "old": "        mat[indices, self.index] = 1\n        prob = self.estimator.predict_proba(X)\n        above = prob[:, 1] > self.threshold\n", "new": "        mat[indices, self.index] = 1\n        prob = self.estimator.predict_proba(X)\n        above = self.threshold < prob[:, 1]\n"},
    {"name": "complement-logical-not", "file": _F, "old": "        above = prob[:, 1] > self.threshold\n        below = ~above\n        n_above = above.sum()\n        n_below = below.sum()\n        indices_above", "new": "        above = prob[:, 1] > self.threshold\n        below = numpy.logical_not(above)\n        n_above = above.sum()\n        n_below = below.sum()\n        indices_above"},
]
MIN_WITNESSES = 14
