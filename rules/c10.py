"""C10 — DecisionTreeLogisticRegression is a consistent tree of binary classifiers.

All clauses are decided on *expanded* expressions (temporaries, loop variables
and simple private helpers are normalised away by engine.expand; a comparison
and the negation of its opposite have one normal form) and on path conditions
computed over the CFG (engine.guards).  Renaming locals, inlining or introducing
temporaries, extracting a helper such as `_split_rows`, passing arguments by
keyword or turning nested ifs into (merged) guard clauses does not change a
verdict.

  C10.a  one routing predicate: every comparison against self.threshold in the
         node class is, in normal form, `self.threshold < P[:, 1]` or its exact
         complement `P[:, 1] <= self.threshold`; each of the four routing sites
         (predict_proba, decision_path, fit, fit_improve) computes both sides on
         the same P; the two read-side traversals use this node's classifier on
         the rows given and recurse into a child iff it exists and receives rows,
         with exactly the rows of its side
  C10.b  gather/scatter pairing (def-use signatures); decision_path marks the
         node's own column for exactly the row ids it was given, unconditionally;
         children receive the shared matrix and the ids of their rows; public
         decision_path allocates n_nodes_ columns and ids 0..n-1
  C10.c  depth and indices: children are built with depth self.depth + 1 only
         where the depth guard holds; first child index self.index + 1, second =
         (last index of the first subtree) + 1; fit returns the last index of the
         second subtree; n_nodes_ = root's last index + 1; terminal test
  C10.d  predict = classes_ taken at [P(class 1) >= 0.5]; the positive class at
         fit is classes_[1]; classes_ are the sorted labels
"""

from __future__ import annotations

import ast
from typing import Dict, List, Optional, Tuple

from engine.src import FunctionInfo, own_nodes, own_nodes_incl_lambda, src_of, AnalysisError
from engine import norm
from engine.guards import cond_text
from .pairing_rules import check_scatter, check_coindex
from .sem import expander, ctext, want, bind, nested_functions, returns, conds_at, calls, self_attr_value_texts, stmt_of

RULES = {
    "C10.a": "every comparison with self.threshold is `self.threshold < P[:, 1]` or its exact complement (expanded normal form), both sides per routing site on one P; read-side recursion iff child exists and receives rows, with its side's rows",
    "C10.b": "gather/scatter pairing in the traversals; own column marked unconditionally for the ids given; children get the ids of their rows; n_nodes_ columns",
    "C10.c": "child depth/index arithmetic under the max_depth guard (path conditions); n_nodes_ = last index + 1; terminal-node test",
    "C10.d": "predict/classes_ agreement (0.5 on column 1, positive class classes_[1])",
}

MOD = "mlinsights.mlmodel.decision_tree_logreg"
NODE = "_DecisionTreeLogisticRegressionNode"
SITES = ("predict_proba", "decision_path", "fit", "fit_improve")
P_READ = "self.estimator.predict_proba(X)"


def _direct_threshold(c: ast.Compare) -> bool:
    """self.threshold occurs in the comparison outside any nested comparison"""
    stack = [c.left] + list(c.comparators)
    while stack:
        n = stack.pop()
        if isinstance(n, ast.Compare):
            continue
        if isinstance(n, ast.Attribute) and src_of(n) == "self.threshold":
            return True
        stack.extend(ast.iter_child_nodes(n))
    return False


def _threshold_comparisons(repo, fi: FunctionInfo) -> List[Tuple[ast.AST, str]]:
    """normal forms of every expression of `fi` that evaluates a comparison with
    self.threshold (directly, through a local or through a simple helper)"""
    ex = expander(repo)
    out, seen = [], set()
    for n in own_nodes_incl_lambda(fi.node):
        if not isinstance(n, (ast.Compare, ast.UnaryOp, ast.Name, ast.Call)):
            continue
        if isinstance(n, ast.Name) and not isinstance(n.ctx, ast.Load):
            continue
        st = stmt_of(n)
        try:
            x = norm.canon(ex.norm_expr(n, fi, st), rename=False)
        except Exception:
            continue
        if not (isinstance(x, ast.Compare) and len(x.ops) == 1 and _direct_threshold(x)):
            continue
        t = ast.unparse(x)
        if t not in seen:
            seen.add(t)
            out.append((n, t))
    return out


def _col1(s: ast.AST) -> bool:
    sl = s.slice if isinstance(s, ast.Subscript) else None
    return isinstance(sl, ast.Tuple) and len(sl.elts) == 2 and isinstance(sl.elts[0], ast.Slice) and sl.elts[0].lower is None and sl.elts[0].upper is None and sl.elts[0].step is None and isinstance(sl.elts[1], ast.Constant) and sl.elts[1].value == 1


def _classify(t: str) -> Optional[Tuple[str, str]]:
    """('above'|'below', P) for the two accepted normal forms"""
    e = ast.parse(t, mode="eval").body
    if isinstance(e, ast.Compare) and len(e.ops) == 1:
        l, r, op = e.left, e.comparators[0], e.ops[0]
        if isinstance(op, ast.Lt) and ast.unparse(l) == "self.threshold" and _col1(r):
            return ("above", ast.unparse(r.value))
        if isinstance(op, ast.LtE) and ast.unparse(r) == "self.threshold" and _col1(l):
            return ("below", ast.unparse(l.value))
    return None


def _mask(repo, side: str, fi, at, P: str = P_READ) -> str:
    return want(repo, f"{P}[:, 1] > self.threshold" if side == "above" else f"{P}[:, 1] <= self.threshold", fi, at)


def _receives_rows(conds, mask: str) -> bool:
    s = f"({mask}).sum()"
    ok = {cond_text(f"{s} > 0"), cond_text(f"{s} >= 1"), cond_text(f"{s} == 0", False), cond_text(s), cond_text(f"({mask}).any()")}
    return any(c in conds for c in ok)


def _implied_by_child(cond, side):
    """A condition that follows from `self.<side> is not None` prunes nothing: the negation of a
    conjunction one of whose operands is `self.<side> is None` (the early exit of a terminal node)."""
    if not (isinstance(cond, tuple) and len(cond) == 2 and cond[1] is False):
        return False
    try:
        t = ast.parse(cond[0], mode="eval").body
    except SyntaxError:
        return False
    ops = t.values if isinstance(t, ast.BoolOp) and isinstance(t.op, ast.And) else [t]
    return any(src_of(o) == f"self.{side} is None" for o in ops)


def check_a(ck, repo):
    ci = repo.cls(MOD, NODE)
    for m in SITES:
        if m not in ci.methods:
            raise AnalysisError(f"anchor vanished: {NODE}.{m}")
    for m, fi in ci.methods.items():
        cmps = _threshold_comparisons(repo, fi)
        if not cmps:
            if m in SITES:
                other = [n_ for n_ in ast.walk(fi.node) if isinstance(n_, ast.Attribute) and n_.attr == "threshold" and src_of(n_.value) != "self"]
                if other:
                    ck.unknown("C10.a", fi, f"{m}: routing predicate", f"{m} compares with {src_of(other[0])}, the threshold of another object than self: the traversal is not the recursion over self.above / self.below this rule reads")
                else:
                    ck.violated("C10.a", fi, f"{m}: routing predicate", f"{m} no longer compares the probability with self.threshold: rows are routed by another rule than at the other sites")
            continue
        sides: Dict[str, str] = {}
        for node, t in cmps:
            k = _classify(t)
            if k is None:
                ck.violated("C10.a", fi, stmt_of(node), f"{m} routes rows with `{t}`; every site must use `self.threshold < P[:, 1]` and its exact complement `P[:, 1] <= self.threshold`: rows (ties at the threshold included) follow different paths at fit, predict and decision_path")
            else:
                sides[k[0]] = k[1]
                ck.holds("C10.a", fi, f"{m}: {t}", f"routing predicate in normal form ({k[0]})")
        if set(sides) == {"above", "below"}:
            ck.verdict(sides["above"] == sides["below"], "C10.a", fi, f"{m}: both sides on P = {sides['above'][:60]}", "the two sides are complements on the same probabilities", f"{m}: 'above' is computed on {sides['above']} but 'below' on {sides['below']}")
            if m in ("predict_proba", "decision_path"):
                ck.verdict(sides["above"] == P_READ, "C10.a", fi, f"{m}: P = {sides['above']}", "probabilities of this node's classifier on the rows given", f"{m} routes with {sides['above']}, not with {P_READ}")
        elif sides and m in SITES:
            ck.violated("C10.a", fi, f"{m}: sides {sorted(sides)}", f"{m} computes only the {sorted(sides)} side from the threshold: the other side is not its exact complement")
    # read-side recursion
    ex = expander(repo)
    for m in ("predict_proba", "decision_path"):
        fi = ci.methods[m]
        rec = calls(fi, lambda c: isinstance(c.func, ast.Attribute) and c.func.attr == m and src_of(c.func.value) in ("self.above", "self.below"))
        if not rec and not calls(fi, lambda c: isinstance(c.func, ast.Attribute) and c.func.attr == m and not src_of(c.func.value).endswith("estimator")):
            ck.unknown("C10.a", fi, f"{m}: 0 recursive calls", f"{m} does not call itself on a child: the traversal is not the recursion this rule reads (an explicit stack or a loop over the nodes is another algorithm for the same walk)")
            continue
        ck.verdict(sorted(src_of(c.func.value) for c in rec) == ["self.above", "self.below"], "C10.a", fi, f"{m}: {len(rec)} recursive calls", "one recursive call per child", f"{m} does not recurse exactly once into each of self.above and self.below")
        for c in rec:
            side = src_of(c.func.value).split(".")[1]
            b = bind(c, fi.named_params[1:])
            x = b.get(fi.named_params[1])
            arg0 = ex.text(x, fi, c) if x is not None else ""
            mask = _mask(repo, side, fi, c)
            ck.verdict(arg0 == ctext(f"X[{mask}]"), "C10.a", fi, c, f"child '{side}' receives exactly the rows routed {side}", f"child '{side}' receives {arg0}, expected X[{mask}]")
            conds = conds_at(repo, fi, c)
            exists = cond_text(f"self.{side} is not None") in conds
            nonempty = _receives_rows(conds, mask)
            ck.verdict(exists and nonempty, "C10.a", fi, f"{m}: guard of child '{side}'", "recursion iff the child exists and receives at least one row", f"{m}: the call into child '{side}' is not guarded by exactly (child exists) and (at least one row routed {side}); conditions on every path to it: {sorted(conds)}")
            extra = [c_ for c_ in conds if c_ != cond_text(f"self.{side} is not None") and not _receives_rows([c_], mask) and not _implied_by_child(c_, side)]
            ck.verdict(not extra, "C10.a", fi, f"{m}: no further condition on child '{side}'", "no other condition prunes the traversal", f"{m}: the call into child '{side}' is also conditioned by {extra}: predict_proba and decision_path may stop at different nodes")


def check_b(ck, repo):
    ci = repo.cls(MOD, NODE)
    pp, dp = ci.methods["predict_proba"], ci.methods["decision_path"]
    n = check_scatter(ck, "C10.b", repo, pp)
    n += check_coindex(ck, "C10.b", repo, dp, methods={"decision_path"}, min_args=2)
    recursive = all(calls(f_, lambda c, m_=f_.name: isinstance(c.func, ast.Attribute) and c.func.attr == m_ and not src_of(c.func.value).endswith("estimator")) for f_ in (pp, dp))
    if n < 4 and not recursive:
        ck.unknown("C10.b", pp, "prob[mask] = child.predict_proba(X[mask]) / child.decision_path(X[mask], mat, indices[mask])", f"only {n} of the 4 gather/scatter pairs were found and a traversal is not recursive any more: shape not read by this rule")
    elif n < 4:
        ck.violated("C10.b", pp, "prob[mask] = child.predict_proba(X[mask]) / child.decision_path(X[mask], mat, indices[mask])", f"only {n} of the 4 gather/scatter pairs of the traversals were found")
    ex = expander(repo)
    p_mat, p_ids = dp.named_params[2], dp.named_params[3]
    marks = [s for s in own_nodes(dp.node) if isinstance(s, (ast.Assign, ast.AugAssign)) and any(isinstance(t, ast.Subscript) and src_of(t.value) == p_mat for t in (s.targets if isinstance(s, ast.Assign) else [s.target]))]
    okm = False
    if len(marks) == 1 and isinstance(marks[0], ast.Assign):
        sl = marks[0].targets[0].slice
        okm = isinstance(sl, ast.Tuple) and len(sl.elts) == 2 and ex.text(sl.elts[0], dp, marks[0]) == p_ids and ex.text(sl.elts[1], dp, marks[0]) == "self.index" and ex.text(marks[0].value, dp, marks[0]) in ("1", "True")
        okm = okm and not conds_at(repo, dp, marks[0])
    ck.verdict(okm, "C10.b", dp, marks[0] if len(marks) == 1 else f"{p_mat}[{p_ids}, self.index] = 1", "the node marks its own column for exactly the rows it was given, on every path", f"decision_path does not unconditionally mark {p_mat}[{p_ids}, self.index] = 1 (and nothing else): the path of some rows misses this node or marks other rows")
    rec = calls(dp, lambda c: isinstance(c.func, ast.Attribute) and c.func.attr == "decision_path" and src_of(c.func.value) in ("self.above", "self.below"))
    for c in rec:
        side = src_of(c.func.value).split(".")[-1]
        b = bind(c, dp.named_params[1:])
        a = {k: ex.text(v, dp, c) for k, v in b.items()}
        mask = _mask(repo, side, dp, c)
        ck.verdict(a.get(p_mat) == p_mat and a.get(p_ids) == ctext(f"{p_ids}[{mask}]"), "C10.b", dp, c, f"child {side} gets the shared matrix and the ids of its own rows", f"child {side} is called with {a}: the row ids do not follow the rows")
    pub = repo.cls(MOD, "DecisionTreeLogisticRegression").methods["decision_path"]
    cc = calls(pub, lambda c: src_of(c.func) == "self.tree_.decision_path")
    ok = False
    if len(cc) == 1:
        b = bind(cc[0], dp.named_params[1:])
        a = {k: ex.text(v, pub, cc[0]) for k, v in b.items()}
        ok = a.get(dp.named_params[1]) == "X" and a.get(p_mat, "").replace("scipy.sparse.", "sparse.").startswith("sparse.lil_matrix((X.shape[0], self.n_nodes_)") and a.get(p_ids) == "numpy.arange(X.shape[0])"
    ck.verdict(ok, "C10.b", pub, cc[0] if cc else "self.tree_.decision_path(X, mat, arange(n))", "one column per node, row ids 0..n-1", "public decision_path does not start the traversal with an (n_rows, n_nodes_) matrix and ids arange(n_rows)")


def _ctor_of(x: ast.AST) -> bool:
    return isinstance(x, ast.Call) and ast.unparse(x.func) == NODE


def check_c(ck, repo):
    ci = repo.cls(MOD, NODE)
    fit = ci.methods["fit"]
    init = ci.methods["__init__"]
    ipar = init.named_params[1:]
    ex = expander(repo)
    nested = nested_functions(repo, fit)
    ctor_sites = [(f, c) for f in [fit] + nested for c in calls(f, lambda c: src_of(c.func) == NODE)]
    if len(ctor_sites) not in (1, 2):
        ck.unknown("C10.c", fit, f"{NODE}(...)", f"{len(ctor_sites)} child constructions found in fit")
        return
    for f, c in ctor_sites:
        b = bind(c, ipar)
        t = {k: ex.text(v, f, c) for k, v in b.items()}
        ck.verdict(t.get("depth") == ctext("self.depth + 1"), "C10.c", f, f"depth={t.get('depth')}", "child depth is parent depth + 1", "child depth is not self.depth + 1: tree_depth_ and the max_depth guard no longer describe the tree")
        ck.verdict(t.get("threshold") == "self.threshold", "C10.c", f, f"threshold={t.get('threshold')}", "children route with the same threshold", "children use another threshold than their parent")
        ck.verdict(t.get("estimator") == "clone(dtlr.estimator)", "C10.c", f, f"estimator={t.get('estimator')}", "each child trains a fresh clone of the base estimator", "a child does not get its own clone of dtlr.estimator")
    # the two children, by path evaluation (the child builder - a closure, a method or
    # straight-line code - is looked through)
    from .sem import paths, truth_of, RAISE, ptext

    through = tuple(f.name for f in nested)
    try:
        ps = [p for p in paths(fit, {}, through=through) if p.ret != RAISE]
    except AnalysisError as e:
        ck.unknown("C10.c", fit, "child builder", f"cannot follow the construction of the children: {e}")
        ps = []
    DEPTH = ("self.depth + 1 <= dtlr.max_depth", "self.depth < dtlr.max_depth")
    SPLIT = ("dtlr.min_samples_split <= X.shape[0]", "dtlr.min_samples_split <= len(X)")
    pX, py_, psw = fit.named_params[1:4]
    built = {"above": 0, "below": 0}
    seen_msgs = set()

    def once(ok, target, good, bad):
        key = (ok, good if ok else bad)
        if key in seen_msgs:
            return
        seen_msgs.add(key)
        ck.verdict(ok, "C10.c", fit, target, good, bad)

    def child(x):
        """None -> no child; (call, bindings) for a node construction; 'bad' otherwise"""
        if x is None or (isinstance(x, ast.Constant) and x.value is None):
            return None
        if _ctor_of(x):
            return x
        return "bad"

    for p in ps:
        A, B = p.stores.get("self.above"), p.stores.get("self.below")
        guards = any(truth_of(p.conds, t) is True for t in DEPTH) and any(truth_of(p.conds, t) is True for t in SPLIT)
        rt = p.ret_text() if p.ret is not None else None
        if "self.above" not in p.stores and "self.below" not in p.stores:
            once(rt == "self.index", f"early return {rt}", "a node that does not split returns its own index", "a non-splitting node does not return its own index")
            once(not guards, "early return only when too deep / too few rows", "early exits are the depth and min_samples_split guards", "a path returns before building children although both guards pass")
            continue
        where = "; ".join(sorted(t[:50] for t, pol in p.conds if pol is False)) or "all tests pass"
        once(guards, "children built behind the depth and min_samples_split guards", "children are built only where self.depth + 1 <= dtlr.max_depth and X has at least min_samples_split rows", f"a child can be built although self.depth + 1 > dtlr.max_depth or below min_samples_split: the tree can be deeper than max_depth (facts on the path: {sorted(t[:40] for t, _ in p.conds)[:6]})")
        last = ctext("self.index + 1")
        expected_index = ctext("self.index + 1")
        okpath = True
        for side, x in (("above", A), ("below", B)):
            c = child(x)
            if c == "bad":
                once(False, f"self.{side} = {ptext(x)[:60]}", "", f"self.{side} receives something that is neither None nor a node built by this fit")
                okpath = False
                break
            if c is None:
                last = expected_index
                expected_index = ctext(f"({last}) + 1")
                continue
            built[side] += 1
            b = bind(c, ipar)
            t = {k: ptext(v) for k, v in b.items()}
            once(t.get("depth") == ctext("self.depth + 1"), f"depth={t.get('depth')}", "child depth is parent depth + 1", "child depth is not self.depth + 1: tree_depth_ and the max_depth guard no longer describe the tree")
            once(t.get("threshold") == "self.threshold", f"threshold={t.get('threshold')}", "children route with the same threshold", "children use another threshold than their parent")
            once(t.get("estimator") == "clone(dtlr.estimator)", f"estimator={t.get('estimator')}", "each child trains a fresh clone of the base estimator", "a child does not get its own clone of dtlr.estimator")
            once(t.get("index") == expected_index, f"{side} child index = {t.get('index', '')[:60]}", "first child gets self.index + 1, second the last index of the first subtree + 1", f"the {side} child gets index {t.get('index', '')[:80]}, expected {expected_index[:80]}: node indices collide or are not below n_nodes_")
            ct = ptext(c)
            fits = [k for k in p.calls if isinstance(k.func, ast.Attribute) and k.func.attr == "fit" and ptext(k.func.value) == ct]
            if len(fits) != 1:
                once(False, f"{side} child fitted {len(fits)} times", "", f"the {side} child is fitted {len(fits)} times on this path (expected once)")
                okpath = False
                break
            a = [ptext(v) for v in fits[0].args]
            m = a[0][len(pX) + 1 : -1] if a and a[0].startswith(f"{pX}[") and a[0].endswith("]") else None
            okf = m is not None and len(a) == 5 and a[1] == f"{py_}[{m}]" and a[2] in (ctext(f"{psw}[{m}] if {psw} is not None else None"), ctext(f"None if {psw} is None else {psw}[{m}]")) and a[3:] == ["dtlr", "total_N"] and not fits[0].keywords
            once(okf, f"{side} child fit arguments", "the child is fitted on its side's rows, targets and weights", f"the {side} child is fitted with {[x_[:40] for x_ in a]}, not with (X[mask], y[mask], sample_weight[mask], dtlr, total_N) of its own side")
            k = _classify(m) if m else None
            once(k is not None and k[0] == side, f"self.{side} built from the rows routed {k[0] if k else '?'}", f"self.above / self.below are the children built from the rows routed above / below", f"the child stored as self.{side} is built from mask `{(m or '')[:60]}` (sides exchanged or not a routing mask)")
            last = ptext(fits[0])
            expected_index = ctext(f"({last}) + 1")
        if okpath:
            once(rt == last, f"return {('last index of the ' + ('below' if child(B) else 'above' if child(A) else 'own') + ' subtree')}", "fit returns the last index handed out in its subtree", f"node.fit returns {str(rt)[:80]}, not the last index used in its subtree ({last[:80]})")
    once(built["above"] >= 1 and built["below"] >= 1, f"children built on some path: {built}", "one child per side", "the two children are not built from the two sides")
    # n_nodes_
    top = repo.cls(MOD, "DecisionTreeLogisticRegression")
    fp = _root_fit_function(repo, top)
    nn = self_attr_value_texts(repo, fp, "n_nodes_")
    fitc = calls(fp, lambda c: src_of(c.func) == "self.tree_.fit")
    ok = len(nn) == 1 and len(fitc) == 1 and nn[0][1] == ctext(f"{ex.text(fitc[0], fp, fitc[0])} + 1")
    ck.verdict(ok, "C10.c", fp, nn[0][0] if nn else "self.n_nodes_ = self.tree_.fit(...) + 1", "n_nodes_ = last index + 1 (indices start at 0)", f"n_nodes_ is {nn[0][1] if nn else None}, not the root's last index + 1: node indices are not all below n_nodes_")
    root = self_attr_value_texts(repo, fp, "tree_")
    okr = False
    if len(root) == 1:
        try:
            rc = ast.parse(root[0][1], mode="eval").body
            rb = {k: ast.unparse(v) for k, v in bind(rc, ipar).items()} if _ctor_of(rc) else {}
            okr = rb.get("estimator") == "clone(self.estimator)" and rb.get("threshold", "0.5") == "0.5" and rb.get("depth", "1") == "1" and rb.get("index", "0") == "0"
        except SyntaxError:
            okr = False
    ck.verdict(okr, "C10.c", fp, root[0][0] if root else "self.tree_ = ...", "root: clone of the estimator, threshold 0.5, depth 1, index 0", f"root is built as {root[0][1] if root else None}")
    defaults = [src_of(d) for d in init.node.args.defaults]
    ck.verdict(ipar == ["estimator", "threshold", "depth", "index"] and defaults == ["0.5", "1", "0"], "C10.c", init, f"defaults {defaults}", "node defaults: threshold 0.5, depth 1, index 0", f"node defaults are {defaults}")
    stores = {a: [t for _, t in self_attr_value_texts(repo, init, a)] for a in ("index", "depth", "threshold", "estimator", "above", "below")}
    ck.verdict(all(stores[a] == [a] for a in ("index", "depth", "threshold", "estimator")) and stores["above"] == ["None"] and stores["below"] == ["None"], "C10.c", init, f"stores {stores}", "the constructor stores its arguments; no child yet", f"node constructor stores {stores}")
    # terminal nodes
    el = ci.methods["enumerate_leaves_index"]
    own = [y for y in own_nodes_incl_lambda(el.node) if isinstance(y, ast.Yield) and y.value is not None and src_of(y.value) == "self.index"]
    okl = False
    conds = frozenset()
    if len(own) == 1:
        conds = conds_at(repo, el, own[0])
        okl = len(conds) == 1 and any(c in conds for c in (cond_text("self.above is None or self.below is None"), cond_text("self.below is None or self.above is None"), cond_text("self.above is not None and self.below is not None", False), cond_text("self.below is not None and self.above is not None", False)))
    recursive_el = any(isinstance(n, ast.Call) and isinstance(n.func, ast.Attribute) and n.func.attr == "enumerate_leaves_index" for n in own_nodes_incl_lambda(el.node))
    if not own and not recursive_el:
        ck.unknown("C10.c", el, "yield self.index", "enumerate_leaves_index neither yields self.index nor recurses into the children: the terminal nodes are listed by another walk (e.g. a generator over all nodes), which this rule does not read")
        return
    ck.verdict(okl, "C10.c", el, own[0] if own else "yield self.index", "a node where some rows stop (a side without child) is listed as terminal", f"terminal-node test changed (conditions {sorted(conds)}): get_leaves_index no longer lists exactly the nodes where a path can end")
    for side in ("above", "below"):
        sub = [n for n in own_nodes_incl_lambda(el.node) if isinstance(n, ast.Call) and src_of(n.func) == f"self.{side}.enumerate_leaves_index"]
        oks = len(sub) == 1 and conds_at(repo, el, sub[0]) == frozenset({cond_text(f"self.{side} is not None")})
        if oks:
            # every element is yielded
            p = getattr(sub[0], "_parent", None)
            oks = isinstance(p, ast.YieldFrom) or (isinstance(p, ast.For) and p.iter is sub[0] and len(p.body) == 1 and isinstance(p.body[0], ast.Expr) and isinstance(p.body[0].value, ast.Yield) and src_of(p.body[0].value.value) == src_of(p.target))
        ck.verdict(oks, "C10.c", el, sub[0] if sub else f"self.{side}.enumerate_leaves_index()", f"terminal nodes of the {side} subtree are all listed", f"the terminal nodes of the {side} subtree are not all enumerated")


def check_same_input(ck, repo):
    """the three read-side traversals walk the same values: none of the public entry points
    re-types X (float32 rounding moves rows that sit on a threshold to the other side)"""
    top = repo.cls(MOD, "DecisionTreeLogisticRegression")
    for mname in ("predict", "predict_proba", "decision_function", "decision_path", "get_leaves_index"):
        m = top.methods.get(mname)
        if m is None or len(m.named_params) < 2:
            continue
        X = m.named_params[1]
        lossy = []
        for st in own_nodes(m.node):
            if isinstance(st, ast.Assign) and any(isinstance(t, ast.Name) and t.id == X for t in st.targets):
                v = src_of(st.value)
                if "float32" in v or "_validate_X_predict" in v or "float16" in v or "DTYPE" in v:
                    lossy.append(st)
        ck.verdict(not lossy, "C10.a", m, lossy[0] if lossy else f"{mname}: {X} is handed to the nodes as given", "the traversal compares the caller's values with the thresholds, like the other traversals", f"{mname} converts {X} to a narrower float type before walking the tree: a probability computed from the rounded features can fall on the other side of the threshold than the one predict_proba / fit computed from the caller's float64 values, so the path marked does not end on the node that produced the probabilities")


def _root_fit_function(repo, top) -> FunctionInfo:
    for name in ("_fit_parallel", "fit"):
        fi = top.methods.get(name)
        if fi is not None and calls(fi, lambda c: src_of(c.func) == "self.tree_.fit"):
            return fi
    raise AnalysisError("anchor vanished: the function that fits self.tree_")


def check_d(ck, repo):
    top = repo.cls(MOD, "DecisionTreeLogisticRegression")
    node = repo.cls(MOD, NODE)
    pr = top.methods["predict"]
    r = returns(repo, pr)
    at = r[-1][0] if r else pr.node
    w = [want(repo, "numpy.take(self.classes_, self.tree_.predict(X))", pr, at), want(repo, "self.classes_[self.tree_.predict(X)]", pr, at), want(repo, "self.classes_.take(self.tree_.predict(X))", pr, at)]
    ck.verdict(len(r) == 1 and r[0][1] in w, "C10.d", pr, f"return {[t for _, t in r]}", "predict = classes_ taken at the node prediction", f"predict returns {[t for _, t in r]}, not classes_ indexed by tree_.predict(X)")
    np_ = node.methods["predict"]
    r = returns(repo, np_)
    at = r[-1][0] if r else np_.node
    w = [want(repo, f"(self.predict_proba(X)[:, 1] >= 0.5).astype({d})", np_, at) for d in ("numpy.int32", "numpy.int64", "int")]
    ck.verdict(len(r) == 1 and r[0][1] in w, "C10.d", np_, f"return {[t for _, t in r]}", "label index = [P(class 1) >= 0.5] from the same probabilities predict_proba returns", f"node prediction is {[t for _, t in r]}, not (predict_proba(X)[:, 1] >= 0.5)")
    pp = top.methods["predict_proba"]
    r = returns(repo, pp)
    ck.verdict([t for _, t in r] == ["self.tree_.predict_proba(X)"], "C10.d", pp, f"return {[t for _, t in r]}", "predict_proba is the tree's", "public predict_proba is not tree_.predict_proba(X)")
    fp = _root_fit_function(repo, top)
    ex = expander(repo)
    fitc = calls(fp, lambda c: src_of(c.func) == "self.tree_.fit")
    ok = False
    a = {}
    if len(fitc) == 1:
        b = bind(fitc[0], node.methods["fit"].named_params[1:])
        a = {k: ex.text(v, fp, fitc[0]) for k, v in b.items()}
        ok = a.get("X") == "X" and a.get("y") in (ctext("(y == self.classes_[1]).astype(numpy.int32)"), ctext("(y == self.classes_[1]).astype(numpy.int64)"), ctext("(y == self.classes_[1]).astype(int)")) and a.get("sample_weight") == "sample_weight" and a.get("dtlr") == "self" and a.get("total_N") in ("X.shape[0]", "len(X)")
    ck.verdict(ok, "C10.d", fp, fitc[0] if fitc else "self.tree_.fit(X, (y == classes_[1]), sample_weight, self, n)", "root fitted on (X, [y == classes_[1]], weights): probability column 1 is classes_[1]", f"the root is fitted with {a}: the binary target is not (y == classes_[1]) or the arguments changed, so probability column 1 and classes_[1] disagree")
    fit = top.methods["fit"]
    c = self_attr_value_texts(repo, fit, "classes_")
    ck.verdict(len(c) == 1 and c[0][1] in ("numpy.array(sorted(set(y)))", "numpy.unique(y)"), "C10.d", fit, c[0][0] if c else "self.classes_ = ...", "classes_ are the sorted distinct labels", "classes_ is not the sorted set of labels")


def run(ck):
    repo = ck.repo
    for k, v in RULES.items():
        ck.rule(k, v)
    from .sem import attribute_held_in_local, drop_caches

    try:
        top_ = repo.cls(MOD, "DecisionTreeLogisticRegression")
        for mn_ in ("fit", "_fit_parallel"):
            m_ = top_.methods.get(mn_)
            if m_ is not None and attribute_held_in_local(m_.node, "tree_"):
                drop_caches(m_)
    except Exception:
        pass
    check_a(ck, repo)
    check_b(ck, repo)
    check_c(ck, repo)
    check_d(ck, repo)
    check_same_input(ck, repo)
    from .sem import share_clauses

    share_clauses(ck, "c04", {
        "C04.b": ("C10.e", "the read-side traversals (predict, predict_proba, decision_path, get_leaves_index) store nothing on the estimator: no cache survives a refit"),
    }, keep=lambda o: o.file.endswith("decision_tree_logreg.py"))
    ck.require_count("C10.a", 16, "normal-form predicates at 4 sites, complements, probability sources, recursion rows and guards")
    ck.require_count("C10.b", 6, "4 pairs, own column, child calls, public allocation")
    ck.require_count("C10.c", 16, "child construction, guards, index arithmetic, n_nodes_, defaults, terminal test")
    ck.require_count("C10.d", 5, "predict, node predict, predict_proba, positive class / root fit, classes_")


_F = "mlinsights/mlmodel/decision_tree_logreg.py"
WITNESSES = [
    {"name": "predict-route-ge", "file": _F, "rule": "C10.a", "old": "        prob = self.estimator.predict_proba(X)\n        above = prob[:, 1] > self.threshold\n        below = ~above\n        n_above = above.sum()\n        n_below = below.sum()\n        if self.above is not None and n_above > 0:\n            prob_above", "new": "        prob = self.estimator.predict_proba(X)\n        above = prob[:, 1] >= self.threshold\n        below = ~above\n        n_above = above.sum()\n        n_below = below.sum()\n        if self.above is not None and n_above > 0:\n            prob_above"},
    {"name": "path-route-column0", "file": _F, "rule": "C10.a", "old": "        mat[indices, self.index] = 1\n        prob = self.estimator.predict_proba(X)\n        above = prob[:, 1] > self.threshold\n", "new": "        mat[indices, self.index] = 1\n        prob = self.estimator.predict_proba(X)\n        above = prob[:, 0] < self.threshold\n"},
    {"name": "fit-route-fixed-half", "file": _F, "rule": "C10.a", "old": "            return self.index\n\n        above = prob[:, 1] > self.threshold\n", "new": "            return self.index\n\n        above = prob[:, 1] > 0.5\n"},
    {"name": "below-not-complement", "file": _F, "rule": "C10.a", "old": "        above = prob[:, 1] > self.threshold\n        below = ~above\n        n_above = above.sum()\n        n_below = below.sum()\n        indices_above", "new": "        above = prob[:, 1] > self.threshold\n        below = prob[:, 1] < self.threshold\n        n_above = above.sum()\n        n_below = below.sum()\n        indices_above"},
    {"name": "path-guard-differs", "file": _F, "rule": "C10.a", "old": "        if self.above is not None and n_above > 0:\n            self.above.decision_path", "new": "        if self.above is not None and n_above > 1:\n            self.above.decision_path"},
    {"name": "proba-guard-extra-condition", "file": _F, "rule": "C10.a", "old": "        if self.below is not None and n_below > 0:\n            prob_below", "new": "        if self.below is not None and n_below > 0 and n_above > 0:\n            prob_below"},
    {"name": "proba-child-gets-other-rows", "file": _F, "rule": "C10.a", "old": "self.below.predict_proba(X[below])", "new": "self.below.predict_proba(X[~below])"},
    {"name": "path-mark-after-routing", "file": _F, "rule": "C10.b", "old": "        mat[indices, self.index] = 1\n        prob = self.estimator.predict_proba(X)\n", "new": "        prob = self.estimator.predict_proba(X)\n        mat[indices[prob[:, 1] > 0], self.index] = 1\n"},
    {"name": "path-mark-conditional", "file": _F, "rule": "C10.b", "old": "        mat[indices, self.index] = 1\n        prob = self.estimator.predict_proba(X)\n", "new": "        if self.above is not None:\n            mat[indices, self.index] = 1\n        prob = self.estimator.predict_proba(X)\n"},
    {"name": "path-wrong-ids", "file": _F, "rule": "C10.b", "old": "        indices_below = indices[below]\n", "new": "        indices_below = indices[above]\n"},
    {"name": "proba-scatter-swapped", "file": _F, "rule": "C10.b", "old": "            prob[below] = prob_below\n", "new": "            prob[above] = prob_below\n"},
    {"name": "child-depth-same", "file": _F, "rule": "C10.c", "old": "estimator, self.threshold, depth=self.depth + 1, index=index", "new": "estimator, self.threshold, depth=self.depth, index=index"},
    {"name": "depth-guard-off-by-one", "file": _F, "rule": "C10.c", "old": "        if self.depth + 1 > dtlr.max_depth:\n", "new": "        if self.depth > dtlr.max_depth:\n"},
    {"name": "second-child-index-collides", "file": _F, "rule": "C10.c", "old": '_fit_side(last + 1, y_below, below, n_below, "below")', "new": '_fit_side(self.index + 2, y_below, below, n_below, "below")'},
    {"name": "n-nodes-no-plus-one", "file": _F, "rule": "C10.c", "old": "self.tree_.fit(X, cls, sample_weight, self, X.shape[0]) + 1", "new": "self.tree_.fit(X, cls, sample_weight, self, X.shape[0])"},
    {"name": "child-no-clone", "file": _F, "rule": "C10.c", "old": "                estimator = clone(dtlr.estimator)\n", "new": "                estimator = dtlr.estimator\n"},
    {"name": "sides-exchanged", "file": _F, "rule": "C10.c", "old": '_fit_side(self.index + 1, y_above, above, n_above, "above")', "new": '_fit_side(self.index + 1, y_above, below, n_above, "above")'},
    {"name": "helper-returns-own-index", "file": _F, "rule": "C10.c", "old": "                return node, last_index\n", "new": "                return node, node.index\n"},
    {"name": "leaves-and-instead-of-or", "file": _F, "rule": "C10.c", "old": "        if self.above is None or self.below is None:\n            yield self.index\n", "new": "        if self.above is None and self.below is None:\n            yield self.index\n"},
    {"name": "root-no-clone", "file": _F, "rule": "C10.c", "old": "        estimator = clone(self.estimator)\n", "new": "        estimator = self.estimator\n"},
    {"name": "predict-gt-half", "file": _F, "rule": "C10.d", "old": "return (prob[:, 1] >= 0.5).astype(numpy.int32)", "new": "return (prob[:, 1] > 0.5).astype(numpy.int32)"},
    {"name": "positive-class-zero", "file": _F, "rule": "C10.d", "old": "cls = (y == self.classes_[1]).astype(numpy.int32)", "new": "cls = (y == self.classes_[0]).astype(numpy.int32)"},
]
TWINS = [
    {"name": "route-flipped-comparison", "file": _F, "old": "        mat[indices, self.index] = 1\n        prob = self.estimator.predict_proba(X)\n        above = prob[:, 1] > self.threshold\n", "new": "        mat[indices, self.index] = 1\n        prob = self.estimator.predict_proba(X)\n        above = self.threshold < prob[:, 1]\n"},
    {"name": "complement-logical-not", "file": _F, "old": "        above = prob[:, 1] > self.threshold\n        below = ~above\n        n_above = above.sum()\n        n_below = below.sum()\n        indices_above", "new": "        above = prob[:, 1] > self.threshold\n        below = numpy.logical_not(above)\n        n_above = above.sum()\n        n_below = below.sum()\n        indices_above"},
    {"name": "guards-merged", "file": _F, "old": "        if self.depth + 1 > dtlr.max_depth:\n            return self.index\n        if X.shape[0] < dtlr.min_samples_split:\n            return self.index\n", "new": "        if self.depth + 1 > dtlr.max_depth or X.shape[0] < dtlr.min_samples_split:\n            return self.index\n"},
    {"name": "predict-index-instead-of-take", "file": _F, "old": "        return numpy.take(self.classes_, labels)\n", "new": "        return self.classes_[labels]\n"},
    {"name": "mark-own-column-last", "file": _F, "old": "        mat[indices, self.index] = 1\n        prob = self.estimator.predict_proba(X)\n        above = prob[:, 1] > self.threshold\n        below = ~above\n        n_above = above.sum()\n        n_below = below.sum()\n        indices_above = indices[above]\n        indices_below = indices[below]\n        if self.above is not None and n_above > 0:\n            self.above.decision_path(X[above], mat, indices_above)\n        if self.below is not None and n_below > 0:\n            self.below.decision_path(X[below], mat, indices_below)\n", "new": "        prob = self.estimator.predict_proba(X)\n        above = prob[:, 1] > self.threshold\n        below = ~above\n        if self.above is not None and above.sum() > 0:\n            self.above.decision_path(X[above], mat, indices[above])\n        if self.below is not None and below.any():\n            self.below.decision_path(X[below], mat, indices[below])\n        mat[indices, self.index] = 1\n"},
]
MIN_WITNESSES = 18
