"""C13 — target transformations are undone by their reciprocal (structural part).

  C13.a  the name table of predefined functions: every inverse name is a key,
         inv(inv(n)) == n, each entry's function is the canonical function of
         its name, and the function of inv(n) is the mathematical inverse class
         of the function of n
  C13.b  inverse construction: get_fct_inv swaps (fct_inv_, fct_) for callables
         and passes the inverse *name* for predefined functions; the permutation
         inverse is the key/value-swapped dict; transform passes features
         through and leaves y=None alone
  C13.c  target flow in the meta-estimators: the inner model is fitted on the
         transformed target; what predict/_apply/classes_ return comes from
         get_fct_inv().transform(.., <inner prediction>) on every path
"""

from __future__ import annotations

import ast
from typing import Dict, List, Optional, Tuple

from engine.src import FunctionInfo, own_nodes, own_nodes_incl_lambda, src_of, AnalysisError
from engine.util import is_self_attr, kwarg, const_value
from engine.cfg import build_cfg
from engine.dataflow import ReachingDefs
from engine import norm

RULES = {
    "C13.a": "available_fcts: inverse names are keys, the table is an involution, names match functions, paired functions are mathematical inverses (function classes log/exp/log1p/expm1)",
    "C13.b": "get_fct_inv builds the reverse transformer (swapped functions, inverse name, swapped permutation); transform passes X through",
    "C13.c": "TransformedTarget*2: inner model trained on transformer_.transform(X, y)[1]; every returned prediction goes through get_fct_inv().transform",
}

MOD = "mlinsights.mlmodel.sklearn_transform_inv_fct"
TP = "mlinsights.mlmodel.target_predictors"

NAME_CLASS = {"log": "L", "exp": "E", "log(1+x)": "L1", "log1p": "L1", "exp(x)-1": "E1", "expm1": "E1"}
INVERSE_CLASS = {"L": "E", "E": "L", "L1": "E1", "E1": "L1"}


from fractions import Fraction

_CLASSES = {
    (1, 0, "log", 1, 0): "L",
    (1, 0, "log", 1, 1): "L1",
    (1, 0, "exp", 1, 0): "E",
    (1, -1, "exp", 1, 0): "E1",
}


def _nf(e: ast.AST, x: str):
    """normal form of an expression in x: ('aff', a, b) for a*x+b, or
    ('F', a_out, b_out, F, a_in, b_in) for a_out*F(a_in*x+b_in)+b_out with F in
    {log, exp}.  None when the expression uses anything else."""
    if isinstance(e, ast.Name) and e.id == x:
        return ("aff", Fraction(1), Fraction(0))
    if isinstance(e, ast.Constant) and isinstance(e.value, (int, float)) and not isinstance(e.value, bool):
        return ("aff", Fraction(0), Fraction(str(e.value)))
    if isinstance(e, ast.UnaryOp) and isinstance(e.op, ast.USub):
        r = _nf(e.operand, x)
        if r is None:
            return None
        if r[0] == "aff":
            return ("aff", -r[1], -r[2])
        return ("F", -r[1], -r[2], r[3], r[4], r[5])
    if isinstance(e, ast.BinOp) and isinstance(e.op, (ast.Add, ast.Sub, ast.Mult)):
        l, r = _nf(e.left, x), _nf(e.right, x)
        if l is None or r is None:
            return None
        if isinstance(e.op, ast.Mult):
            # one side must be a constant
            for c, o in ((l, r), (r, l)):
                if c[0] == "aff" and c[1] == 0:
                    k = c[2]
                    if o[0] == "aff":
                        return ("aff", o[1] * k, o[2] * k)
                    return ("F", o[1] * k, o[2] * k, o[3], o[4], o[5])
            return None
        sgn = 1 if isinstance(e.op, ast.Add) else -1
        if l[0] == "aff" and r[0] == "aff":
            return ("aff", l[1] + sgn * r[1], l[2] + sgn * r[2])
        if l[0] == "F" and r[0] == "aff" and r[1] == 0:
            return ("F", l[1], l[2] + sgn * r[2], l[3], l[4], l[5])
        if l[0] == "aff" and l[1] == 0 and r[0] == "F":
            return ("F", sgn * r[1], l[2] + sgn * r[2], r[3], r[4], r[5])
        return None
    if isinstance(e, ast.Call) and len(e.args) == 1 and not e.keywords:
        f = src_of(e.func)
        arg = _nf(e.args[0], x)
        if arg is None or arg[0] != "aff":
            return None
        if f in ("numpy.log", "np.log", "math.log"):
            return ("F", Fraction(1), Fraction(0), "log", arg[1], arg[2])
        if f in ("numpy.log1p", "np.log1p"):
            return ("F", Fraction(1), Fraction(0), "log", arg[1], arg[2] + 1)
        if f in ("numpy.exp", "np.exp", "math.exp"):
            return ("F", Fraction(1), Fraction(0), "exp", arg[1], arg[2])
        if f in ("numpy.expm1", "np.expm1"):
            return ("F", Fraction(1), Fraction(-1), "exp", arg[1], arg[2])
    return None


def classify_fn(e: ast.AST):
    """'L' | 'E' | 'L1' | 'E1' for a recognised function; ('other', text) for a
    function whose normal form was derived but is none of the four; None when
    the expression cannot be interpreted."""
    t = src_of(e)
    direct = {"numpy.log": "L", "numpy.exp": "E", "numpy.log1p": "L1", "numpy.expm1": "E1"}
    if t in direct:
        return direct[t]
    if isinstance(e, ast.Lambda) and len(e.args.args) == 1:
        x = e.args.args[0].arg
        r = _nf(e.body, x)
        if r is None:
            return None
        if r[0] == "aff":
            return ("other", f"{r[1]}*x+{r[2]}")
        key = (r[1], r[2], r[3], r[4], r[5])
        for k, c in _CLASSES.items():
            if tuple(Fraction(v) if not isinstance(v, str) else v for v in k) == key:
                return c
        return ("other", f"{r[1]}*{r[3]}({r[4]}*x+{r[5]})+{r[2]}")
    return None


def check_a(ck, repo):
    ci = repo.cls(MOD, "FunctionReciprocalTransformer")
    af = ci.methods.get("available_fcts")
    if af is None:
        raise AnalysisError("anchor vanished: FunctionReciprocalTransformer.available_fcts")
    rets = [r for r in own_nodes(af.node) if isinstance(r, ast.Return) and isinstance(r.value, ast.Dict)]
    if len(rets) != 1:
        ck.unknown("C13.a", af, "return {...}", "table is not a dict literal")
        return
    table: Dict[str, Tuple[ast.AST, str]] = {}
    for k, v in zip(rets[0].value.keys, rets[0].value.values):
        name = const_value(k)
        if not isinstance(name, str) or not (isinstance(v, ast.Tuple) and len(v.elts) == 2 and isinstance(const_value(v.elts[1]), str)):
            ck.unknown("C13.a", af, k, "entry is not name: (function, inverse name)")
            continue
        table[name] = (v.elts[0], const_value(v.elts[1]))
    for name, (fn, inv) in sorted(table.items()):
        if inv not in table:
            ck.violated("C13.a", af, f"'{name}': (.., '{inv}')", f"the reciprocal of '{name}' is named '{inv}', which is not a predefined function: get_fct_inv() raises")
            continue
        back = table[inv][1]
        ck.verdict(back == name or NAME_CLASS.get(back) == NAME_CLASS.get(name), "C13.a", af, f"'{name}' -> '{inv}' -> '{back}'", "inverse of the inverse is the function itself", f"table is not an involution: '{name}' -> '{inv}' -> '{back}'")
        cf = classify_fn(fn)
        want = NAME_CLASS.get(name)
        if cf is None or want is None:
            ck.unknown("C13.a", af, f"'{name}': {src_of(fn)[:40]}", "cannot classify the function / unknown name")
            continue
        if isinstance(cf, tuple):
            ck.violated("C13.a", af, f"'{name}': {src_of(fn)[:40]}", f"'{name}' is implemented by {src_of(fn)}, i.e. x -> {cf[1]}, which is not the function its name denotes")
            continue
        ck.verdict(cf == want, "C13.a", af, f"'{name}': {src_of(fn)[:40]}", f"function of class {cf} matches its name", f"'{name}' is implemented by {src_of(fn)}, which computes {cf}, not {want}")
        ci_ = classify_fn(table[inv][0])
        if ci_ is not None and not isinstance(ci_, tuple):
            ck.verdict(INVERSE_CLASS[cf] == ci_, "C13.a", af, f"'{name}' ({cf}) has reciprocal '{inv}' ({ci_})", "paired functions are mathematical inverses", f"the reciprocal of '{name}' ({cf}) is '{inv}', a function of class {ci_}, not {INVERSE_CLASS[cf]}: transform followed by get_fct_inv().transform does not give back the targets")
    ck.extra["function_table"] = {k: v[1] for k, v in table.items()}
    return len(table)


def check_b(ck, repo):
    ci = repo.cls(MOD, "FunctionReciprocalTransformer")
    fit, inv, tr = ci.methods["fit"], ci.methods["get_fct_inv"], ci.methods["transform"]
    # fit
    asg = [s for s in own_nodes(fit.node) if isinstance(s, ast.Assign)]
    t = {src_of(s.targets[0]): src_of(s.value) for s in asg}
    ck.verdict(t.get("self.fct_") == "self.fct" and t.get("self.fct_inv_") == "self.fct_inv", "C13.b", fit, "fct_ = fct; fct_inv_ = fct_inv", "callable pair stored in order", "callables are stored exchanged or not stored")
    ck.verdict(t.get("(self.fct_, self.fct_inv_)") == "opts[self.fct]", "C13.b", fit, "(fct_, fct_inv_) = opts[self.fct]", "predefined name resolved to (function, inverse name)", "predefined function is not unpacked as (function, inverse name)")
    # get_fct_inv
    calls = [c for c in own_nodes_incl_lambda(inv.node) if isinstance(c, ast.Call) and src_of(c.func) == "FunctionReciprocalTransformer"]
    byargs = sorted([src_of(a) for a in c.args] for c in calls)
    ck.verdict(byargs == sorted([["self.fct_inv_"], ["self.fct_inv_", "self.fct_"]]), "C13.b", inv, f"constructions {byargs}", "reverse transformer = (inverse name) or (inverse function, function)", f"the reverse transformer is built with {byargs}: forward and backward functions are not exchanged")
    for c in calls:
        if len(c.args) == 1:
            from engine.util import enclosing_tests

            tests = enclosing_tests(c, inv.node)
            ck.verdict(any(src_of(t_) == "isinstance(self.fct_inv_, str)" and pol for t_, pol in tests), "C13.b", inv, c, "name form used only when the inverse is a name", "single-argument construction is not guarded by isinstance(self.fct_inv_, str)")
    r = [src_of(x.value) for x in own_nodes(inv.node) if isinstance(x, ast.Return)]
    ck.verdict(r == ["res.fit()"], "C13.b", inv, f"return {r}", "the reverse transformer is returned fitted", "get_fct_inv does not return the fitted reverse transformer")
    # transform
    rets = [src_of(x.value) for x in sorted((y for y in own_nodes(tr.node) if isinstance(y, ast.Return)), key=lambda z: z.lineno)]
    ck.verdict(rets == ["(X, None)", "(X, self.fct_(y))"], "C13.b", tr, f"returns {rets}", "features untouched, target mapped by fct_, y=None stays None", f"transform returns {rets}")
    # permutation
    pc = repo.cls(MOD, "PermutationReciprocalTransformer")
    pinv = pc.methods["get_fct_inv"]
    s = [src_of(x) for x in own_nodes(pinv.node) if isinstance(x, ast.Assign)]
    ck.verdict("res.permutation_ = {v: k for k, v in self.permutation_.items()}" in s, "C13.b", pinv, "res.permutation_ = {v: k for k, v in permutation_.items()}", "inverse permutation is the swapped dict", "the inverse permutation is not the key/value-swapped mapping")
    ck.verdict(any(x.startswith("res = PermutationReciprocalTransformer(self.random_state, closest=self.closest)") for x in s), "C13.b", pinv, "res = PermutationReciprocalTransformer(self.random_state, closest=self.closest)", "inverse keeps the options", "inverse transformer loses random_state/closest")
    r = [src_of(x.value) for x in own_nodes(pinv.node) if isinstance(x, ast.Return)]
    ck.verdict(r == ["res"], "C13.b", pinv, f"return {r}", "returns the inverse transformer", "does not return the inverse")
    ptr = pc.methods["transform"]
    rets = [src_of(x.value) for x in sorted((y for y in own_nodes(ptr.node) if isinstance(y, ast.Return)), key=lambda z: z.lineno)]
    ck.verdict(rets == ["(X, None)", "(X, yp.reshape(y.shape))", "(X, yp)"], "C13.b", ptr, f"returns {rets}", "features untouched in both label and probability branches", f"permutation transform returns {rets}")
    body = [src_of(x) for x in own_nodes(ptr.node) if isinstance(x, ast.Assign)]
    ck.verdict("yp[i] = self.permutation_[cl]" in body and "yp = y.copy().ravel()" in body, "C13.b", ptr, "yp = y.copy().ravel(); yp[i] = self.permutation_[cl]", "labels are mapped through permutation_ on a copy", "label branch does not map a copy of y through permutation_")
    ck.verdict("yp[:, new_perm[i]] = y[:, i]" in body and "yp = y.copy()" in body, "C13.b", ptr, "yp[:, new_perm[i]] = y[:, i]", "probability columns are moved to their permuted position on a copy", "probability branch does not move column i to new_perm[i] on a copy")
    skip = [x for x in own_nodes(ptr.node) if isinstance(x, ast.If) and src_of(x.test) == "num and numpy.isnan(yp[i])" and any(isinstance(b, ast.Continue) for b in x.body)]
    ck.verdict(len(skip) == 1, "C13.b", ptr, "if num and numpy.isnan(yp[i]): continue", "NaN stays NaN", "NaN targets are no longer skipped")
    # fit: distinct values in order of first appearance get 0..n-1, then permuted
    pfit = pc.methods["fit"]
    body = [src_of(x) for x in own_nodes(pfit.node) if isinstance(x, ast.Assign)]
    ck.verdict("perm[u] = len(perm)" in body and "perm[u] = lin[perm[u]]" in body and "lin = numpy.arange(len(perm))" in body, "C13.b", pfit, "perm[u] = len(perm); lin = arange(len(perm)); perm[u] = lin[perm[u]]", "permutation_ is a bijection of the distinct targets onto 0..n-1", "permutation_ is no longer built as a bijection onto 0..n-1")


def _flows_through_inverse(fi: FunctionInfo) -> Tuple[bool, str]:
    """every Return value of `fi` is the second element of
    <t>.get_fct_inv().transform(.., <inner prediction>)"""
    rd = ReachingDefs(fi.node)
    rets = [r for r in own_nodes(fi.node) if isinstance(r, ast.Return)]
    if not rets:
        return False, "no return"
    for r in rets:
        v = r.value
        if not isinstance(v, ast.Name):
            return False, f"returns {src_of(v) if v is not None else None}"
        at = rd.node_of(r)
        ok_all = True
        dns = rd.def_nodes(v.id, at) if at is not None else []
        if not dns:
            return False, "unreachable/undefined"
        for dn in dns:
            a = dn.ast if dn is not None else None
            if not (isinstance(a, ast.Assign) and isinstance(a.targets[0], ast.Tuple) and len(a.targets[0].elts) == 2 and src_of(a.targets[0].elts[1]) == v.id and isinstance(a.value, ast.Call) and isinstance(a.value.func, ast.Attribute) and a.value.func.attr == "transform"):
                return False, f"'{v.id}' is not the target part of an inverse transform"
            recv = a.value.func.value
            # receiver must be <something>.get_fct_inv()
            rdefs = rd.def_nodes(recv.id, dn) if isinstance(recv, ast.Name) else []
            okr = bool(rdefs) and all(d is not None and isinstance(d.ast, ast.Assign) and src_of(d.ast.value) == "self.transformer_.get_fct_inv()" for d in rdefs)
            if not okr:
                return False, f"receiver {src_of(recv)} is not self.transformer_.get_fct_inv()"
            if len(a.value.args) != 2:
                return False, "inverse transform is not called with (X, prediction)"
    return True, ""


def check_c(ck, repo):
    for cname, inner, is_reg in (("TransformedTargetRegressor2", "regressor_", "True"), ("TransformedTargetClassifier2", "classifier_", "False")):
        ci = repo.cls(TP, cname)
        fit = ci.methods["fit"]
        body = sorted((s for s in own_nodes(fit.node) if isinstance(s, (ast.Assign, ast.Expr))), key=lambda s: s.lineno)
        t = [src_of(s) for s in body]
        hp = inner[:-1]
        ck.verdict(f"self.transformer_ = _common_get_transform(self.transformer, {is_reg})" in t, "C13.c", fit, "self.transformer_ = _common_get_transform(self.transformer, ..)", "a fresh transformer is derived from the hyper-parameter", "transformer_ is not derived from the hyper-parameter through _common_get_transform")
        ck.verdict("self.transformer_.fit(X, y, sample_weight=sample_weight)" in t and "X_trans, y_trans = self.transformer_.transform(X, y)" in t and t.index("self.transformer_.fit(X, y, sample_weight=sample_weight)") < t.index("X_trans, y_trans = self.transformer_.transform(X, y)"), "C13.c", fit, "transformer_.fit(X, y); X_trans, y_trans = transformer_.transform(X, y)", "targets are transformed by the fitted transformer", "the training targets are not the output of the fitted transformer")
        fits = [c for c in own_nodes_incl_lambda(fit.node) if isinstance(c, ast.Call) and src_of(c.func) == f"self.{inner}.fit"]
        ok = len(fits) == 2 and all([src_of(a) for a in c.args[:2]] == ["X_trans", "y_trans"] for c in fits)
        ck.verdict(ok, "C13.c", fit, f"self.{inner}.fit(X_trans, y_trans, ...)", "the inner model is trained on the TRANSFORMED target", "the inner model is not trained on (X_trans, y_trans): it learns the original target and predictions are inverse-transformed nevertheless")
        sw = [c for c in fits if kwarg(c, "sample_weight") is not None]
        ck.verdict(len(sw) == 1 and src_of(kwarg(sw[0], "sample_weight")) == "sample_weight", "C13.c", fit, "sample_weight forwarded", "weights reach the inner model", "sample weights are not forwarded")
        # read side
        targets = [ci.methods["predict"]] if cname.endswith("Regressor2") else [ci.methods["_apply"], ci.methods["classes_"]]
        for m in targets:
            ok, why = _flows_through_inverse(m)
            ck.verdict(ok, "C13.c", m, f"{cname}.{m.name}: return value", "every returned value is the target part of get_fct_inv().transform(..)", f"{cname}.{m.name}: {why}: predictions are returned in the transformed space")
            st = [src_of(s) for s in own_nodes(m.node) if isinstance(s, ast.Assign)]
            if m.name == "predict":
                ck.verdict("pred = self.regressor_.predict(X_trans)" in st and "_, pred_inv = inv.transform(X_trans, pred)" in st, "C13.c", m, "pred = regressor_.predict(X_trans); _, pred_inv = inv.transform(X_trans, pred)", "the inverse is applied to the inner model's prediction", "the value inverted is not the inner model's prediction")
            if m.name == "_apply":
                ck.verdict("meth = getattr(self.classifier_, method)" in st and "pred = meth(X_trans)" in st and "_, pred_inv = inv.transform(X_trans, pred)" in st, "C13.c", m, "meth = getattr(classifier_, method); pred = meth(X_trans); inv.transform(X_trans, pred)", "the requested method of the inner classifier is inverted", "the value inverted is not the output of the requested method")
            if m.name == "classes_":
                ck.verdict("_, pred_inv = inv.transform(None, self.classifier_.classes_)" in st, "C13.c", m, "inv.transform(None, classifier_.classes_)", "classes_ are the inner classes mapped back to original labels", "classes_ is not the inverse image of the inner classifier's classes_")
        if cname.endswith("Classifier2"):
            for mname in ("predict", "predict_proba", "decision_function"):
                m = ci.methods[mname]
                r = [src_of(x.value) for x in own_nodes(m.node) if isinstance(x, ast.Return)]
                ck.verdict(r == [f"self._apply(X, '{mname}')"], "C13.c", m, f"return {r}", f"{mname} goes through _apply with its own name", f"{mname} does not call _apply(X, '{mname}')")
    g = repo.func(TP, "_common_get_transform")
    r = sorted(src_of(x.value) for x in own_nodes(g.node) if isinstance(x, ast.Return))
    ck.verdict(r == sorted(["PermutationReciprocalTransformer(closest=closest)", "FunctionReciprocalTransformer(transformer)", "clone(transformer)"]), "C13.c", g, f"returns {r}", "string -> predefined transformer, object -> clone", f"_common_get_transform returns {r}")


def run(ck):
    repo = ck.repo
    for k, v in RULES.items():
        ck.rule(k, v)
    check_a(ck, repo)
    check_b(ck, repo)
    check_c(ck, repo)
    ck.require_count("C13.a", 10, "six entries x (involution, name/function, inverse class)")
    ck.require_count("C13.b", 8, "fit, get_fct_inv, transform of both transformers")
    ck.require_count("C13.c", 10, "fit flow and read-side flow of both meta-estimators")


_F = "mlinsights/mlmodel/sklearn_transform_inv_fct.py"
_T = "mlinsights/mlmodel/target_predictors.py"
WITNESSES = [
    {"name": "table-wrong-inverse-name", "file": _F, "rule": "C13.a", "old": '"exp(x)-1": (lambda x: numpy.exp(x) - 1, "log(1+x)")', "new": '"exp(x)-1": (lambda x: numpy.exp(x) - 1, "log")'},
    {"name": "table-function-not-its-name", "file": _F, "rule": "C13.a", "old": '"log(1+x)": (lambda x: numpy.log(x + 1), "exp(x)-1")', "new": '"log(1+x)": (lambda x: numpy.log(x) + 1, "exp(x)-1")'},
    {"name": "table-log1p-is-log", "file": _F, "rule": "C13.a", "old": '"log1p": (numpy.log1p, "expm1")', "new": '"log1p": (numpy.log, "expm1")'},
    {"name": "table-missing-key", "file": _F, "rule": "C13.a", "old": '"expm1": (numpy.expm1, "log1p")', "new": '"expm1": (numpy.expm1, "log1")'},
    {"name": "inv-not-swapped", "file": _F, "rule": "C13.b", "old": "res = FunctionReciprocalTransformer(self.fct_inv_, self.fct_)", "new": "res = FunctionReciprocalTransformer(self.fct_, self.fct_inv_)"},
    {"name": "permutation-inv-not-swapped", "file": _F, "rule": "C13.b", "old": "{v: k for k, v in self.permutation_.items()}", "new": "{k: v for k, v in self.permutation_.items()}"},
    {"name": "transform-touches-X", "file": _F, "rule": "C13.b", "old": "        return X, self.fct_(y)\n", "new": "        return self.fct_(X), self.fct_(y)\n"},
    {"name": "proba-columns-not-moved", "file": _F, "rule": "C13.b", "old": "                yp[:, new_perm[i]] = y[:, i]\n", "new": "                yp[:, i] = y[:, new_perm[i]]\n"},
    {"name": "regressor-trained-on-raw-target", "file": _T, "rule": "C13.c", "old": "            self.regressor_.fit(X_trans, y_trans)\n", "new": "            self.regressor_.fit(X_trans, y)\n"},
    {"name": "predict-returns-transformed", "file": _T, "rule": "C13.c", "old": "        _, pred_inv = inv.transform(X_trans, pred)\n        return pred_inv\n\n    def score(self, X, y, sample_weight=None):\n        \"\"\"\n        Scores the model with\n        :epkg:`sklearn:metrics:r2_score`.", "new": "        _, pred_inv = inv.transform(X_trans, pred)\n        return pred\n\n    def score(self, X, y, sample_weight=None):\n        \"\"\"\n        Scores the model with\n        :epkg:`sklearn:metrics:r2_score`."},
    {"name": "classes-not-inverted", "file": _T, "rule": "C13.c", "old": "        _, pred_inv = inv.transform(None, self.classifier_.classes_)\n        return pred_inv\n", "new": "        return self.classifier_.classes_\n"},
    {"name": "apply-forward-transform", "file": _T, "rule": "C13.c", "old": "        pred = meth(X_trans)\n        inv = self.transformer_.get_fct_inv()\n", "new": "        pred = meth(X_trans)\n        inv = self.transformer_\n"},
    {"name": "proba-uses-predict", "file": _T, "rule": "C13.c", "old": '        return self._apply(X, "predict_proba")\n', "new": '        return self._apply(X, "predict")\n'},
]
TWINS = [
    {"name": "table-log1p-lambda", "file": _F, "old": '"log(1+x)": (lambda x: numpy.log(x + 1), "exp(x)-1")', "new": '"log(1+x)": (lambda z: numpy.log(1 + z), "exp(x)-1")'},
]
MIN_WITNESSES = 11
