"""C13 — target transformations are undone by their reciprocal (structural part).

  C13.a  the name table of predefined functions: every inverse name is a key,
         inv(inv(n)) == n, each entry's function is the canonical function of
         its name, and the function of inv(n) is the mathematical inverse class
         of the function of n
  C13.b  inverse construction: get_fct_inv swaps (fct_inv_, fct_) for callables
         and passes the inverse *name* for predefined functions; the permutation
         inverse is the key/value-swapped dict; transform passes features
         through and leaves y=None alone
  C13.c  target flow in the meta-estimators: the inner model is fitted on the
         transformed target; what predict/_apply/classes_ return comes from
         get_fct_inv().transform(.., <inner prediction>) on every path
"""

from __future__ import annotations

import ast
from typing import Dict, List, Optional, Tuple

from engine.src import FunctionInfo, own_nodes, own_nodes_incl_lambda, src_of, AnalysisError
from engine.util import is_self_attr, kwarg, const_value
from engine.cfg import build_cfg
from engine.dataflow import ReachingDefs
from engine import norm
import re
from .sem import truth_of, expander, ctext, want, xt, bind, calls, paths, block_paths, split_ifexp, inline_helpers, defs_texts, guarded_values, self_attr_value_texts, RAISE, BREAK, CONTINUE

RULES = {
    "C13.a": "available_fcts: inverse names are keys, the table is an involution, names match functions, paired functions are mathematical inverses (function classes log/exp/log1p/expm1)",
    "C13.b": "get_fct_inv builds the reverse transformer (swapped functions, inverse name, swapped permutation); transform passes X through",
    "C13.d": "classes_[j] is the label of probability column j: the order of classes_ agrees with the column placement of the permutation's probability branch (positions kept -> mapped in place; columns moved to the rank of their original label -> classes_ sorted)",
    "C13.c": "TransformedTarget*2: inner model trained on transformer_.transform(X, y)[1]; every returned prediction goes through get_fct_inv().transform",
}

MOD = "mlinsights.mlmodel.sklearn_transform_inv_fct"
TP = "mlinsights.mlmodel.target_predictors"

NAME_CLASS = {"log": "L", "exp": "E", "log(1+x)": "L1", "log1p": "L1", "exp(x)-1": "E1", "expm1": "E1"}
INVERSE_CLASS = {"L": "E", "E": "L", "L1": "E1", "E1": "L1"}


from fractions import Fraction

_CLASSES = {
    (1, 0, "log", 1, 0): "L",
    (1, 0, "log", 1, 1): "L1",
    (1, 0, "exp", 1, 0): "E",
    (1, -1, "exp", 1, 0): "E1",
}


def _nf(e: ast.AST, x: str):
    """normal form of an expression in x: ('aff', a, b) for a*x+b, or
    ('F', a_out, b_out, F, a_in, b_in) for a_out*F(a_in*x+b_in)+b_out with F in
    {log, exp}.  None when the expression uses anything else."""
    if isinstance(e, ast.Name) and e.id == x:
        return ("aff", Fraction(1), Fraction(0))
    if isinstance(e, ast.Constant) and isinstance(e.value, (int, float)) and not isinstance(e.value, bool):
        return ("aff", Fraction(0), Fraction(str(e.value)))
    if isinstance(e, ast.UnaryOp) and isinstance(e.op, ast.USub):
        r = _nf(e.operand, x)
        if r is None:
            return None
        if r[0] == "aff":
            return ("aff", -r[1], -r[2])
        return ("F", -r[1], -r[2], r[3], r[4], r[5])
    if isinstance(e, ast.BinOp) and isinstance(e.op, (ast.Add, ast.Sub, ast.Mult)):
        l, r = _nf(e.left, x), _nf(e.right, x)
        if l is None or r is None:
            return None
        if isinstance(e.op, ast.Mult):
            # one side must be a constant
            for c, o in ((l, r), (r, l)):
                if c[0] == "aff" and c[1] == 0:
                    k = c[2]
                    if o[0] == "aff":
                        return ("aff", o[1] * k, o[2] * k)
                    return ("F", o[1] * k, o[2] * k, o[3], o[4], o[5])
            return None
        sgn = 1 if isinstance(e.op, ast.Add) else -1
        if l[0] == "aff" and r[0] == "aff":
            return ("aff", l[1] + sgn * r[1], l[2] + sgn * r[2])
        if l[0] == "F" and r[0] == "aff" and r[1] == 0:
            return ("F", l[1], l[2] + sgn * r[2], l[3], l[4], l[5])
        if l[0] == "aff" and l[1] == 0 and r[0] == "F":
            return ("F", sgn * r[1], l[2] + sgn * r[2], r[3], r[4], r[5])
        return None
    if isinstance(e, ast.Call) and len(e.args) == 1 and not e.keywords:
        f = src_of(e.func)
        arg = _nf(e.args[0], x)
        if arg is None or arg[0] != "aff":
            return None
        if f in ("numpy.log", "np.log", "math.log"):
            return ("F", Fraction(1), Fraction(0), "log", arg[1], arg[2])
        if f in ("numpy.log1p", "np.log1p"):
            return ("F", Fraction(1), Fraction(0), "log", arg[1], arg[2] + 1)
        if f in ("numpy.exp", "np.exp", "math.exp"):
            return ("F", Fraction(1), Fraction(0), "exp", arg[1], arg[2])
        if f in ("numpy.expm1", "np.expm1"):
            return ("F", Fraction(1), Fraction(-1), "exp", arg[1], arg[2])
    return None


def classify_fn(e: ast.AST):
    """'L' | 'E' | 'L1' | 'E1' for a recognised function; ('other', text) for a
    function whose normal form was derived but is none of the four; None when
    the expression cannot be interpreted."""
    t = src_of(e)
    direct = {"numpy.log": "L", "numpy.exp": "E", "numpy.log1p": "L1", "numpy.expm1": "E1"}
    if t in direct:
        return direct[t]
    if isinstance(e, ast.Lambda) and len(e.args.args) == 1:
        x = e.args.args[0].arg
        r = _nf(e.body, x)
        if r is None:
            return None
        if r[0] == "aff":
            return ("other", f"{r[1]}*x+{r[2]}")
        key = (r[1], r[2], r[3], r[4], r[5])
        for k, c in _CLASSES.items():
            if tuple(Fraction(v) if not isinstance(v, str) else v for v in k) == key:
                return c
        return ("other", f"{r[1]}*{r[3]}({r[4]}*x+{r[5]})+{r[2]}")
    return None


def _materialise_table(af: FunctionInfo) -> Optional[ast.Dict]:
    """{k: v for <targets> in [<literal entries>]} written out as a dict literal
    (single path, single generator without filter, literal list/tuple of entries)"""
    from engine.util import clone_ast

    ps = [p for p in paths(af) if p.ret not in (None, RAISE)]
    if len(ps) != 1 or not isinstance(ps[0].ret, ast.DictComp):
        return None
    dc = ps[0].ret
    if len(dc.generators) != 1 or dc.generators[0].ifs or not isinstance(dc.generators[0].iter, (ast.List, ast.Tuple)):
        return None
    g = dc.generators[0]
    keys, vals = [], []
    for e in g.iter.elts:
        m: Dict[str, ast.AST] = {}

        def bind_(t, v):
            if isinstance(t, ast.Name):
                m[t.id] = v
                return True
            if isinstance(t, (ast.Tuple, ast.List)) and isinstance(v, (ast.Tuple, ast.List)) and len(t.elts) == len(v.elts):
                return all(bind_(a, b) for a, b in zip(t.elts, v.elts))
            if isinstance(t, ast.Subscript):
                return False
            return False

        tgt = g.target
        if not bind_(tgt, e):
            # comprehension variables normalised to one name with subscripts: _c0[0], _c0[1]
            if isinstance(tgt, ast.Name) and isinstance(e, (ast.Tuple, ast.List)):
                m = {tgt.id: e}
            else:
                return None

        class S(ast.NodeTransformer):
            def visit_Subscript(s_, n):
                n = s_.generic_visit(n)
                if isinstance(n.value, (ast.Tuple, ast.List)) and isinstance(n.slice, ast.Constant) and isinstance(n.slice.value, int) and -len(n.value.elts) <= n.slice.value < len(n.value.elts):
                    return n.value.elts[n.slice.value]
                return n

            def visit_Name(s_, n):
                if isinstance(n.ctx, ast.Load) and n.id in m:
                    return clone_ast(m[n.id])
                return n

        keys.append(S().visit(clone_ast(dc.key)))
        vals.append(S().visit(clone_ast(dc.value)))
    return ast.Dict(keys=keys, values=vals)


def check_a(ck, repo):
    ci = repo.cls(MOD, "FunctionReciprocalTransformer")
    af = ci.methods.get("available_fcts")
    if af is None:
        raise AnalysisError("anchor vanished: FunctionReciprocalTransformer.available_fcts")
    rets = [r for r in own_nodes(af.node) if isinstance(r, ast.Return) and isinstance(r.value, ast.Dict)]
    lit = rets[0].value if len(rets) == 1 else None
    if lit is None:
        # the same table written as a comprehension over a literal list of entries
        lit = _materialise_table(af)
    if lit is None:
        ck.unknown("C13.a", af, "return {...}", "table is not a dict literal")
        return
    table: Dict[str, Tuple[ast.AST, str]] = {}
    for k, v in zip(lit.keys, lit.values):
        name = const_value(k)
        if not isinstance(name, str) or not (isinstance(v, ast.Tuple) and len(v.elts) == 2 and isinstance(const_value(v.elts[1]), str)):
            ck.unknown("C13.a", af, k, "entry is not name: (function, inverse name)")
            continue
        table[name] = (v.elts[0], const_value(v.elts[1]))
    for name, (fn, inv) in sorted(table.items()):
        if inv not in table:
            ck.violated("C13.a", af, f"'{name}': (.., '{inv}')", f"the reciprocal of '{name}' is named '{inv}', which is not a predefined function: get_fct_inv() raises")
            continue
        back = table[inv][1]
        ck.verdict(back == name or NAME_CLASS.get(back) == NAME_CLASS.get(name), "C13.a", af, f"'{name}' -> '{inv}' -> '{back}'", "inverse of the inverse is the function itself", f"table is not an involution: '{name}' -> '{inv}' -> '{back}'")
        cf = classify_fn(fn)
        want = NAME_CLASS.get(name)
        if cf is None or want is None:
            ck.unknown("C13.a", af, f"'{name}': {src_of(fn)[:40]}", "cannot classify the function / unknown name")
            continue
        if isinstance(cf, tuple):
            ck.violated("C13.a", af, f"'{name}': {src_of(fn)[:40]}", f"'{name}' is implemented by {src_of(fn)}, i.e. x -> {cf[1]}, which is not the function its name denotes")
            continue
        ck.verdict(cf == want, "C13.a", af, f"'{name}': {src_of(fn)[:40]}", f"function of class {cf} matches its name", f"'{name}' is implemented by {src_of(fn)}, which computes {cf}, not {want}")
        ci_ = classify_fn(table[inv][0])
        if ci_ is not None and not isinstance(ci_, tuple):
            ck.verdict(INVERSE_CLASS[cf] == ci_, "C13.a", af, f"'{name}' ({cf}) has reciprocal '{inv}' ({ci_})", "paired functions are mathematical inverses", f"the reciprocal of '{name}' ({cf}) is '{inv}', a function of class {ci_}, not {INVERSE_CLASS[cf]}: transform followed by get_fct_inv().transform does not give back the targets")
    ck.extra["function_table"] = {k: v[1] for k, v in table.items()}
    return len(table)


def _t(x) -> str:
    return ast.unparse(x) if isinstance(x, ast.AST) else str(x)


def _swapped_dict(x: ast.AST, P: str) -> bool:
    """x builds {value: key} from the mapping P (comprehensions are in the
    normal form of rules.sem: one variable per generator, components by index)"""
    t = _t(x).replace(" ", "")
    forms = {
        f"{{_c0[1]:_c0[0]for_c0in{P}.items()}}",
        f"dict(zip({P}.values(),{P}.keys()))",
        f"dict(zip({P}.values(),{P}))",
        f"{{{P}[_c0]:_c0for_c0in{P}}}",
    }
    return t in forms


def check_b(ck, repo):
    ci = repo.cls(MOD, "FunctionReciprocalTransformer")
    fit, inv, tr = ci.methods["fit"], ci.methods["get_fct_inv"], ci.methods["transform"]
    # fit
    ps = paths(fit)
    T = "self.__class__.available_fcts()"
    okc = okn = False
    for p in ps:
        st = {k: _t(v) for k, v in p.stores.items()}
        if ("callable(self.fct)", True) in p.conds:
            okc = st.get("self.fct_") == "self.fct" and st.get("self.fct_inv_") == "self.fct_inv"
        elif ("callable(self.fct)", False) in p.conds:
            okn = st.get("self.fct_") in (f"{T}[self.fct][0]", "type(self).available_fcts()[self.fct][0]", "self.available_fcts()[self.fct][0]") and st.get("self.fct_inv_") == st.get("self.fct_")[:-3] + "[1]"
    ck.verdict(okc, "C13.b", fit, "callable: fct_ = fct; fct_inv_ = fct_inv", "callable pair stored in order", "callables are stored exchanged or not stored")
    ck.verdict(okn, "C13.b", fit, "name: (fct_, fct_inv_) = table[self.fct]", "predefined name resolved to (function, inverse name)", "predefined function is not unpacked as (function, inverse name)")
    # get_fct_inv
    ps = [p for p in split_ifexp(paths(inv)) if p.ret != RAISE]
    seen = {}
    for p in ps:
        key = True if ("isinstance(self.fct_inv_, str)", True) in p.conds else (False if ("isinstance(self.fct_inv_, str)", False) in p.conds else None)
        seen[key] = p.ret_text()
    ck.verdict(seen == {True: "FunctionReciprocalTransformer(self.fct_inv_).fit()", False: "FunctionReciprocalTransformer(self.fct_inv_, self.fct_).fit()"}, "C13.b", inv, f"reverse transformer by kind of inverse: {seen}", "reverse transformer = fitted (inverse name) when the inverse is a name, fitted (inverse function, function) otherwise", f"the reverse transformer is built as {seen}: forward and backward functions are not exchanged, the name form is used for callables, or the result is not fitted")
    # transform
    X, y = tr.named_params[1], tr.named_params[2]
    r_none = [p.ret_text() for p in split_ifexp(paths(tr, {y: None})) if p.ret != RAISE]
    r_some = sorted(set(p.ret_text() for p in split_ifexp(paths(tr)) if p.ret != RAISE and (f"{y} is None", False) in p.conds))
    ck.verdict(r_none == [f"({X}, None)"] and r_some == [f"({X}, self.fct_({y}))"], "C13.b", tr, f"returns {r_none} / {r_some}", "features untouched, target mapped by fct_, y=None stays None", f"transform returns {r_none} for y=None and {r_some} otherwise")
    # permutation
    pc = repo.cls(MOD, "PermutationReciprocalTransformer")
    pinv = pc.methods["get_fct_inv"]
    from .sem import dict_loop_to_comprehension
    dict_loop_to_comprehension(pinv)
    ps = [p for p in paths(pinv) if p.ret != RAISE]
    okp = oko = False
    if len(ps) == 1 and isinstance(ps[0].ret, ast.Call) and _t(ps[0].ret.func) == "PermutationReciprocalTransformer":
        r = ps[0].ret
        b = {k: _t(v) for k, v in bind(r, pc.methods["__init__"].named_params[1:]).items()}
        oko = b == {"random_state": "self.random_state", "closest": "self.closest"}
        rt = _t(r)
        st = ps[0].stores
        keys = [k for k in st if k.endswith(".permutation_")]
        okp = len(keys) == 1 and keys[0] == rt + ".permutation_" and _swapped_dict(st[keys[0]], "self.permutation_")
    ck.verdict(okp, "C13.b", pinv, "res.permutation_ = {v: k for k, v in permutation_.items()}", "inverse permutation is the swapped dict, installed on the transformer returned", "the inverse permutation is not the key/value-swapped mapping")
    ck.verdict(oko, "C13.b", pinv, "PermutationReciprocalTransformer(random_state, closest)", "inverse keeps the options", "inverse transformer loses random_state/closest")
    ptr = pc.methods["transform"]
    X, y = ptr.named_params[1], ptr.named_params[2]
    ps = paths(ptr)
    r_none = [p.ret_text() for p in paths(ptr, {y: None}) if p.ret != RAISE]
    ex = expander(repo)
    feats = sorted(set(_t(p.ret.elts[0]) if isinstance(p.ret, ast.Tuple) and len(p.ret.elts) == 2 else "?" for p in ps if p.ret not in (None, RAISE)))
    ck.verdict(r_none == [f"({X}, None)"] and feats == [X], "C13.b", ptr, f"returns {r_none}; features {feats}", "features untouched on every path, y=None stays None", f"permutation transform returns {r_none} for y=None / features {feats}")
    # label branch: every element of a copy of y is mapped through permutation_
    from .sem import enumerate_to_index_form, drop_caches

    if any(enumerate_to_index_form(l) for l in own_nodes(ptr.node) if isinstance(l, ast.For)):
        drop_caches(ptr)
        ex = expander(repo)
    loops = [l for l in own_nodes(ptr.node) if isinstance(l, ast.For) and isinstance(l.target, ast.Name)]
    lab = prob = None
    for l in loops:
        stores = [x for x in ast.walk(l) if isinstance(x, ast.Assign) and isinstance(x.targets[0], ast.Subscript) and isinstance(x.targets[0].value, ast.Name)]
        for x in stores:
            sl = x.targets[0].slice
            if isinstance(sl, ast.Name) and sl.id == l.target.id:
                lab = (l, x.targets[0].value.id)
            elif isinstance(sl, ast.Tuple) and len(sl.elts) == 2:
                prob = (l, x)
    if lab is None:
        ck.violated("C13.b", ptr, "for i in range(len(yp)): yp[i] = permutation_[..]", "label branch: no element-wise mapping of the targets found")
    else:
        l, Y = lab
        # which targets take the label branch: every integer width labels can have (a 2-D block of
        # int32 labels must not be taken for a block of scores)
        sel = [p_ for p_ in _parents_of(l) if isinstance(p_, ast.If) and any(l is z or any(l is w for w in ast.walk(z)) for z in p_.body)]
        for if_ in sel[:1]:
            for cmp_ in [c_ for c_ in ast.walk(if_.test) if isinstance(c_, ast.Compare) and len(c_.ops) == 1 and isinstance(c_.ops[0], ast.In) and _t(c_.left).endswith(".dtype") and isinstance(c_.comparators[0], (ast.Tuple, ast.List, ast.Set))]:
                listed = {_t(e_).split(".")[-1] for e_ in c_container(cmp_)}
                widths = {"int32", "int64"} - listed - ({"int64"} if {"int_", "intp", "longlong"} & listed else set())
                ck.verdict(not widths, "C13.b", ptr, cmp_, f"integer labels of every usual width take the label branch ({sorted(listed)})", f"the dtype test lists {sorted(listed)}: labels of dtype {sorted(widths)} (what numpy gives for integer labels on some platforms and what callers pass explicitly) with two dimensions are taken for a matrix of scores: columns are moved instead of values being mapped, or transform raises")
        iv = l.target.id
        ydef = [xt(x_) for _, x_, _ in guarded_values(repo, ptr, ast.Name(id=Y, ctx=ast.Load()), l)]
        okcopy = bool(ydef) and all(t in (f"{y}.copy().ravel()", f"{y}.ravel().copy()", f"numpy.array({y}).ravel()", f"{y}.flatten()") for t in ydef)
        it_ok = ex.text(l.iter, ptr, l) in (want(repo, f"range(len({Y}))", ptr, l), want(repo, f"range({Y}.shape[0])", ptr, l))
        # a length taken before the loop (n = len(yp)) is the length of what yp was bound to
        it_ok = it_ok or ex.text(l.iter, ptr, l) in {f"range(len({d_}))" for d_ in ydef} | {f"range({d_}.shape[0])" for d_ in ydef}
        E = f"{Y}[{iv}]"
        P = "self.permutation_"
        # locals bound once to an attribute of self before the loop (perm = self.permutation_)
        env0 = {}
        for s0 in own_nodes(ptr.node):
            if isinstance(s0, ast.Assign) and len(s0.targets) == 1 and isinstance(s0.targets[0], ast.Name) and isinstance(s0.value, ast.Attribute) and isinstance(s0.value.value, ast.Name) and s0.value.value.id == "self" and s0.lineno < l.lineno:
                nm0 = s0.targets[0].id
                if sum(1 for z in ast.walk(ptr.node) if isinstance(z, ast.Name) and z.id == nm0 and isinstance(z.ctx, ast.Store)) == 1:
                    env0[nm0] = s0.value
        bp = block_paths(ptr, l.body, env0) if env0 else block_paths(ptr, l.body)
        kinds = {}
        for p in bp:
            facts = dict(p.conds)
            if p.ret == CONTINUE:
                kinds.setdefault("skip", []).append(sorted(p.conds))
            elif p.ret == RAISE:
                kinds.setdefault("raise", []).append(facts)
            elif p.ret is None:
                st = {k: _t(v) for k, v in p.stores.items()}
                kinds.setdefault("map", []).append((facts, st))
        okskip = kinds.get("skip") == [[(f"numpy.isnan({E})", True), ("num", True)]] or (len(kinds.get("skip", [])) == 1 and any(t == f"numpy.isnan({E})" and pol for t, pol in kinds["skip"][0]) and len(kinds["skip"][0]) == 2)
        ck.verdict(okskip, "C13.b", ptr, f"NaN skipped: {kinds.get('skip')}", "NaN stays NaN", "NaN targets are no longer skipped")
        okmap = True
        nmap = 0
        for facts, st in kinds.get("map", []):
            nmap += 1
            known = facts.get(f"{E} in {P}")
            v = st.get(E)
            if known is True:
                okmap = okmap and v == f"{P}[{E}]" and len(st) == 1
            elif known is False:
                okmap = okmap and facts.get("self.closest") is True and v == f"{P}[self._find_closest({E})]" and len(st) == 1
            else:
                okmap = False
        okraise = all(f.get(f"{E} in {P}") is False and f.get("self.closest") is False for f in kinds.get("raise", [])) and len(kinds.get("raise", [])) >= 1
        ck.verdict(okcopy and it_ok and okmap and nmap == 2 and okraise, "C13.b", ptr, f"{Y} = {ydef}; {E} = {P}[...]", "labels are mapped through permutation_ on a copy (closest key when allowed, error otherwise)", "label branch does not map every element of a copy of y through permutation_")
    if prob is None:
        # all columns moved at once: Y[:, [M[i] for i in range(y.shape[1])]] = y
        from .sem import elementwise

        vec = [x for x in own_nodes(ptr.node) if isinstance(x, ast.Assign) and isinstance(x.targets[0], ast.Subscript) and isinstance(x.targets[0].slice, ast.Tuple) and len(x.targets[0].slice.elts) == 2 and isinstance(x.targets[0].slice.elts[0], ast.Slice) and _t(x.value) == y and isinstance(x.targets[0].value, ast.Name)]
        okv = False
        if len(vec) == 1:
            x = vec[0]
            r_ = elementwise(repo, ptr, x.targets[0].slice.elts[1], x)
            Yv = x.targets[0].value.id
            ydef = [xt(x_) for _, x_, _ in guarded_values(repo, ptr, ast.Name(id=Yv, ctx=ast.Load()), x)]
            if r_ is not None and len(r_[0]) == 1 and isinstance(r_[1], ast.Subscript) and isinstance(r_[1].value, ast.Name) and _t(r_[1].slice) == "__e0":
                src_ = r_[0][0]
                M = r_[1].value.id
                rd = ex.rd(ptr)
                node = rd.node_of(x)
                dep = node is not None and rd.depends_on(ast.Name(id=M, ctx=ast.Load()), node, set(), {"permutation_"})
                okv = src_.replace(" ", "") in (f"range({y}.shape[1])", f"range(0,{y}.shape[1])") and dep and f"{y}.copy()" in ydef
        # the opposite reading of the permutation: columns GATHERED by it, out[:, j] = y[:, M[j]]
        gathered = None
        if not vec:
            for r0 in [r0 for r0 in own_nodes(ptr.node) if isinstance(r0, ast.Return) and isinstance(r0.value, ast.Tuple) and len(r0.value.elts) == 2]:
                v0 = r0.value.elts[1]
                if isinstance(v0, ast.Subscript) and _t(v0.value) == y and isinstance(v0.slice, ast.Tuple) and len(v0.slice.elts) == 2 and _t(v0.slice.elts[0]) == ":":
                    idx_ = v0.slice.elts[1]
                    at_ = r0
                    if isinstance(idx_, ast.Name):
                        defs_ = [s0 for s0 in own_nodes(ptr.node) if isinstance(s0, ast.Assign) and len(s0.targets) == 1 and isinstance(s0.targets[0], ast.Name) and s0.targets[0].id == idx_.id]
                        if len(defs_) == 1:
                            idx_, at_ = defs_[0].value, defs_[0]
                    if isinstance(idx_, (ast.ListComp, ast.GeneratorExp)) and len(idx_.generators) == 1 and not idx_.generators[0].ifs and isinstance(idx_.generators[0].target, ast.Name) \
                            and isinstance(idx_.elt, ast.Subscript) and isinstance(idx_.elt.value, ast.Name) and _t(idx_.elt.slice) == idx_.generators[0].target.id \
                            and _t(idx_.generators[0].iter).replace(" ", "") in (f"range({y}.shape[1])", f"range(0,{y}.shape[1])", f"range(len({idx_.elt.value.id}))"):
                        M = idx_.elt.value.id
                        rd = ex.rd(ptr)
                        node = rd.node_of(at_)
                        if node is not None and rd.depends_on(ast.Name(id=M, ctx=ast.Load()), node, set(), {"permutation_"}):
                            gathered = (r0, M)
        if gathered:
            ck.violated("C13.b", ptr, gathered[0], f"the probability branch returns {y}[:, [{gathered[1]}[i] for i ..]]: column j of the result is column {gathered[1]}[j] of the input, the inverse of moving column i to position {gathered[1]}[i]; the two agree only when the permutation is its own inverse, so get_fct_inv().transform does not bring the columns back")
        elif okv:
            ck.holds("C13.b", ptr, vec[0], "probability columns are moved to their permuted position on a copy (all columns at once)")
        else:
            ck.unknown("C13.b", ptr, "yp[:, new_perm[i]] = y[:, i]", "probability branch: no column-by-column move found, and no one-statement scatter Y[:, [M[i] for i in range(n)]] = y this rule reads")
    else:
        l, x = prob
        iv = l.target.id
        Y = x.targets[0].value.id
        ydef = [xt(x_) for _, x_, _ in guarded_values(repo, ptr, ast.Name(id=Y, ctx=ast.Load()), l)]
        sl = x.targets[0].slice
        dst = sl.elts[1]
        src_ok = _t(x.value).replace(" ", "") == f"{y}[:,{iv}]" and isinstance(sl.elts[0], ast.Slice)
        M = dst.value.id if isinstance(dst, ast.Subscript) and isinstance(dst.value, ast.Name) and _t(dst.slice) == iv else None
        dep = False
        if M:
            from engine.dataflow import ReachingDefs

            rd = ex.rd(ptr)
            node = rd.node_of(x)
            dep = node is not None and rd.depends_on(ast.Name(id=M, ctx=ast.Load()), node, set(), {"permutation_"})
        it_ok = ex.text(l.iter, ptr, l) == want(repo, f"range({y}.shape[1])", ptr, l)
        ck.verdict(src_ok and M is not None and dep and it_ok and f"{y}.copy()" in ydef, "C13.b", ptr, x, "probability columns are moved to their permuted position on a copy", "probability branch does not move column i to new_perm[i] (a mapping derived from permutation_) on a copy")
        # what the branch hands back is the array the columns were moved into
        cur_ = l
        rets_ = []
        while cur_ is not None and not rets_ and not isinstance(cur_, (ast.FunctionDef, ast.AsyncFunctionDef)):
            par_ = getattr(cur_, "_parent", None)
            for fld_ in ("body", "orelse", "finalbody"):
                seq_ = getattr(par_, fld_, None)
                if isinstance(seq_, list) and any(z is cur_ for z in seq_):
                    k_ = [i_ for i_, z in enumerate(seq_) if z is cur_][0]
                    for z in seq_[k_ + 1 :]:
                        rets_ += [r_ for r_ in ast.walk(z) if isinstance(r_, ast.Return) and r_.value is not None]
            cur_ = par_
        if rets_:
            rd_ = ex.rd(ptr)
            bad_ = []
            for r_ in rets_:
                tv_ = r_.value.elts[-1] if isinstance(r_.value, ast.Tuple) and r_.value.elts else r_.value
                nd_ = rd_.node_of(r_)
                # a result variable assigned in the branch itself (single-exit form): its value there decides
                local_def = None
                if isinstance(tv_, ast.Name):
                    par2 = getattr(l, "_parent", None)
                    for fld_ in ("body", "orelse", "finalbody"):
                        seq2 = getattr(par2, fld_, None)
                        if isinstance(seq2, list) and any(z is l for z in seq2):
                            k2 = [i_ for i_, z in enumerate(seq2) if z is l][0]
                            for z in seq2[k2 + 1 :]:
                                if isinstance(z, ast.Assign) and len(z.targets) == 1 and isinstance(z.targets[0], ast.Name) and z.targets[0].id == tv_.id:
                                    local_def = z
                if local_def is not None:
                    nd2 = rd_.node_of(local_def)
                    if nd2 is not None and not _flows_from(rd_, local_def.value, nd2, Y):
                        bad_.append(local_def)
                    continue
                if nd_ is not None and not _flows_from(rd_, tv_, nd_, Y):
                    bad_.append(r_)
            ck.verdict(not bad_, "C13.b", ptr, rets_[0], f"the probability branch returns {Y}, the array the columns were moved into", f"after moving the columns into {Y} the branch hands back `{src_of(bad_[0].value) if bad_ else ''}`, which does not depend on {Y}: predict_proba / decision_function come back in the inner classifier's column order and disagree with classes_")
    # "may hold NaN" is asked of every floating dtype, not of float64 alone
    for m_ in pc.methods.values():
        for c_ in ast.walk(m_.node):
            if isinstance(c_, ast.Call) and _t(c_.func).split(".")[-1] == "issubdtype" and len(c_.args) == 2:
                kind = _t(c_.args[1])
                ck.verdict(kind in ("numpy.floating", "numpy.inexact", "numpy.number"), "C13.b", m_, c_, f"NaN is looked for in every floating dtype ({kind})", f"the dtype test is issubdtype(.., {kind}): true for float64 only, so float32 / float16 targets holding NaN are not skipped: NaN becomes a key of the permutation at fit and transform raises on it (NaN != NaN), the round trip no longer keeps NaN")
    # fit: distinct values in order of first appearance get 0..n-1, then permuted
    pfit = pc.methods["fit"]
    okr = False
    R = None
    for l in [l for l in own_nodes(pfit.node) if isinstance(l, ast.For) and isinstance(l.target, ast.Name)]:
        u = l.target.id
        for p in block_paths(pfit, l.body):
            if p.ret is None and len(p.stores) == 1:
                (k, v), = p.stores.items()
                m = re.match(r"^(\w+)\[%s\]$" % re.escape(u), k)
                if m and _t(v) == f"len({m.group(1)})" and (f"{u} in {m.group(1)}", False) in p.conds and ex.text(l.iter, pfit, l) in (f"{pfit.named_params[2]}.ravel()", f"{pfit.named_params[2]}.flatten()"):
                    R = m.group(1)
                    okr = True
    ck.verdict(okr, "C13.b", pfit, f"{R}[u] = len({R}) at first appearance", "distinct targets are numbered 0..n-1 in order of first appearance", "permutation_ is no longer built as a bijection onto 0..n-1: distinct targets are not numbered consecutively at first appearance")
    if R is not None:
        # the shuffled numbering: a permutation of arange(n) on every path
        with ex.lenient():
            pv = [t for _, t in self_attr_value_texts(repo, pfit, "permutation_")]
        perm_src = None
        if len(pv) == 1:
            try:
                v = ast.parse(pv[0], mode="eval").body
            except SyntaxError:
                v = None
            if isinstance(v, ast.DictComp) and len(v.generators) == 1 and _t(v.generators[0].iter) == f"{R}.items()" and isinstance(v.value, ast.Subscript) and isinstance(v.generators[0].target, (ast.Tuple, ast.Name)):
                tg = v.generators[0].target
                k_, r_ = [_t(e) for e in tg.elts] if isinstance(tg, ast.Tuple) else (f"{tg.id}[0]", f"{tg.id}[1]")
                if _t(v.key) == k_ and _t(v.value.slice) == r_:
                    perm_src = v.value.value.id if isinstance(v.value.value, ast.Name) else v.value.value
            elif isinstance(v, ast.Name) and v.id == R:
                for l in [l for l in own_nodes(pfit.node) if isinstance(l, ast.For) and isinstance(l.target, ast.Name)]:
                    u = l.target.id
                    for s_ in l.body:
                        if isinstance(s_, ast.Assign) and _t(s_.targets[0]) == f"{R}[{u}]" and isinstance(s_.value, ast.Subscript) and _t(s_.value.slice) == f"{R}[{u}]" and isinstance(s_.value.value, ast.Name) and len(l.body) == 1:
                            with ex.lenient():
                                keys = ex.text(l.iter, pfit, l)
                            if keys in (f"list({R}.keys())", f"list({R})", f"tuple({R})", f"sorted({R})"):
                                perm_src = s_.value.value.id
            if perm_src is None and isinstance(v, ast.Name) and v.id == R:
                # for u, rank in list(R.items()): R[u] = shuffled[rank]
                for l in [l for l in own_nodes(pfit.node) if isinstance(l, ast.For) and isinstance(l.target, ast.Tuple) and len(l.target.elts) == 2 and all(isinstance(e, ast.Name) for e in l.target.elts)]:
                    u, rk = [e.id for e in l.target.elts]
                    for s_ in l.body:
                        if isinstance(s_, ast.Assign) and _t(s_.targets[0]) == f"{R}[{u}]" and isinstance(s_.value, ast.Subscript) and _t(s_.value.slice) == rk and isinstance(s_.value.value, ast.Name) and len(l.body) == 1:
                            with ex.lenient():
                                keys = ex.text(l.iter, pfit, l)
                            if keys in (f"list({R}.items())", f"tuple({R}.items())", f"sorted({R}.items())"):
                                perm_src = s_.value.value.id
        okl = False
        if perm_src is None:
            ck.unknown("C13.b", pfit, f"permutation_ = {{u: shuffled[{R}[u]]}}", f"the way the numbering is composed with the random permutation is not one of the spellings this rule reads (permutation_ = {pv[:1]})")
        if perm_src:
            if isinstance(perm_src, str):
                alts = [xt(x_) for _, x_, _ in guarded_values(repo, pfit, ast.Name(id=perm_src, ctx=ast.Load()), [r for r in own_nodes(pfit.node) if isinstance(r, ast.Return)][-1])]
            else:
                alts = [xt(perm_src)]
            A = f"numpy.arange(len({R}))"
            okl = bool(alts) and all(a in (f"numpy.random.permutation({A})", f"numpy.random.RandomState(self.random_state).permutation({A})", f"check_random_state(self.random_state).permutation({A})") for a in alts)
            if not okl:
                # one draw from a generator chosen in branches
                okl = all(a.endswith(f".permutation({A})") for a in alts) and bool(alts)
        if perm_src is not None:
          ck.verdict(perm_src is not None and okl, "C13.b", pfit, f"permutation_ = {{u: shuffled[{R}[u]]}}, shuffled = permutation(arange(n))", "permutation_ is a bijection of the distinct targets onto 0..n-1", "permutation_ is no longer built as a bijection onto 0..n-1: the numbering is not composed with a permutation of arange(n)")


ORDER_WRAPPERS = ("numpy.sort(", "sorted(", "numpy.unique(", "numpy.array(sorted(", "numpy.asarray(sorted(")


def _flows_from(rd, expr, at, name: str, _seen=None) -> bool:
    """does the value of `expr` at `at` come (through local definitions) from the local `name`?"""
    from engine.dataflow import _value_exprs

    _seen = _seen if _seen is not None else set()
    for n in ast.walk(expr):
        if isinstance(n, ast.Name) and isinstance(n.ctx, ast.Load):
            if n.id == name:
                return True
            for d in rd.reaching(n.id, at):
                if d == -1 or (n.id, d) in _seen:
                    continue
                _seen.add((n.id, d))
                dn = rd.node_by_id[d]
                if any(_flows_from(rd, e, dn, name, _seen) for e in _value_exprs(dn, n.id)):
                    return True
    return False


def _strip_order(t: str) -> str:
    for w in sorted(ORDER_WRAPPERS, key=len, reverse=True):
        if t.startswith(w) and t.endswith(")" * w.count("(")):
            return t[len(w) : -w.count("(")]
    return t


def check_d(ck, repo):
    """classes_[j] is the label of probability column j: the label branch of the
    permutation transformer maps labels position by position, the probability
    branch MOVES columns (column i goes to the rank of its inverse-mapped label);
    classes_ must be ordered like the columns predict_proba returns"""
    pc = repo.cls(MOD, "PermutationReciprocalTransformer")
    ptr = pc.methods["transform"]
    y = ptr.named_params[2]
    moves = []
    for l in [l for l in own_nodes(ptr.node) if isinstance(l, ast.For) and isinstance(l.target, ast.Name)]:
        for x in ast.walk(l):
            if isinstance(x, ast.Assign) and isinstance(x.targets[0], ast.Subscript) and isinstance(x.targets[0].slice, ast.Tuple) and len(x.targets[0].slice.elts) == 2 and isinstance(x.value, ast.Subscript) and _t(x.value.value) == y:
                moves.append((l, x))
    if len(moves) != 1:
        ck.unknown("C13.d", ptr, "yp[:, new_perm[i]] = y[:, i]", f"{len(moves)} column moves found in the probability branch")
        return
    l, x = moves[0]
    iv = l.target.id
    dst = x.targets[0].slice.elts[1]
    identity = _t(dst) == iv
    ascending = True
    if not identity:
        # the destination is a rank computed from a sort of (mapped label, key) pairs: ascending unless reversed
        srt = [c for c in own_nodes_incl_lambda(ptr.node) if isinstance(c, ast.Call) and ((isinstance(c.func, ast.Attribute) and c.func.attr == "sort") or (isinstance(c.func, ast.Name) and c.func.id == "sorted"))]
        if not srt:
            ck.unknown("C13.d", ptr, x, "the destination of a probability column is not its position and no sort defines it: column order not understood")
            return
        for c in srt:
            rv = kwarg(c, "reverse")
            if rv is not None and const_value(rv) is not False:
                ascending = False
    ci = repo.cls(TP, "TransformedTargetClassifier2")
    cl = ci.methods.get("classes_")
    if cl is None:
        raise AnalysisError("anchor vanished: TransformedTargetClassifier2.classes_")
    W = "self.transformer_.get_fct_inv().transform(None, self.classifier_.classes_)[1]"
    got = sorted(set(_t(inline_helpers(repo, cl, p.ret)) if isinstance(p.ret, ast.AST) else str(p.ret) for p in paths(cl) if p.ret != RAISE))
    if identity:
        ck.verdict(got == [W], "C13.d", cl, f"classes_ = {got}", "probability columns keep their position, classes_ lists the labels in the same positions", f"the probability branch keeps the inner classifier's column order, but classes_ is {got}: classes_[j] is not the label of column j")
        return
    ordered = [g_ for g_ in got if g_ != W and _strip_order(g_) == W]
    ck.verdict(bool(got) and len(ordered) == len(got) and ascending, "C13.d", cl, f"classes_ = {[g_[:70] for g_ in got]}", "the probability branch moves column i to the rank of its original label: classes_ lists the original labels in increasing order, like the columns", f"the probability/decision columns are re-ordered by the rank of their original label (`{src_of(x)}`), but classes_ returns {[g_[:90] for g_ in got]} - the original labels in the order of the INNER classifier's classes: classes_[j] is not the label of probability column j whenever the permutation is not the identity")


def _parents_of(n):
    p = getattr(n, "_parent", None)
    while p is not None:
        yield p
        p = getattr(p, "_parent", None)


def c_container(cmp_):
    return cmp_.comparators[0].elts


def check_c(ck, repo):
    ex = expander(repo)
    for cname, inner, is_reg in (("TransformedTargetRegressor2", "regressor_", "True"), ("TransformedTargetClassifier2", "classifier_", "False")):
        ci = repo.cls(TP, cname)
        fit = ci.methods["fit"]
        X, y, sw = fit.named_params[1:4]
        ps = [p for p in paths(fit) if p.ret != RAISE]
        XT, YT = f"self.transformer_.transform({X}, {y})[0]", f"self.transformer_.transform({X}, {y})[1]"
        ok_t = ok_f = ok_o = ok_w = bool(ps)
        star_unknown = False
        for p in ps:
            st = {k: _t(v) for k, v in p.stores.items()}
            ok_t = ok_t and st.get("self.transformer_") == f"_common_get_transform(self.transformer, {is_reg})"
            cs = [_t(c) for c in p.calls]
            tf = [i_ for i_, c in enumerate(cs) if c.startswith("self.transformer_.fit(")]
            tt = [i_ for i_, c in enumerate(cs) if c.startswith("self.transformer_.transform(")]
            ok_o = ok_o and len(tf) == 1 and cs[tf[0]] == f"self.transformer_.fit({X}, {y}, sample_weight={sw})" and bool(tt) and tf[0] < tt[0]
            fits = [c for c in p.calls if _t(c.func) == f"self.{inner}.fit"]
            ok_f = ok_f and len(fits) == 1 and [_t(a) for a in fits[0].args[:2]] == [XT, YT]
            # weights may be present on every path that does not establish `sample_weight is None`
            given = (f"{sw} is None", False) in p.conds or truth_of(p.conds, f"{sw} is None") is not True
            kw = {k.arg: _t(k.value) for k in fits[0].keywords} if fits else {}
            pos_sw = _t(fits[0].args[2]) if fits and len(fits[0].args) > 2 else None
            star = [_t(k.value) for k in fits[0].keywords if k.arg is None] if fits else []
            if star and "sample_weight" not in kw and pos_sw is None:
                # the weights travel in a mapping: `{} if sample_weight is None else {"sample_weight": sample_weight}`
                forms = {ctext(f"{{}} if {sw} is None else {{'sample_weight': {sw}}}"), ctext(f"{{'sample_weight': {sw}}} if {sw} is not None else {{}}"), ctext(f"{{'sample_weight': {sw}}}")}
                if any(ctext(t_) in forms for t_ in star):
                    continue
                if (f"{sw} is None", False) not in p.conds:
                    star_unknown = True
                    continue
            ok_w = ok_w and ((kw.get("sample_weight") == sw or pos_sw == sw) if given else (kw.get("sample_weight") in (None, sw) and pos_sw in (None, sw)))
        ck.verdict(ok_t, "C13.c", fit, "self.transformer_ = _common_get_transform(self.transformer, ..)", "a fresh transformer is derived from the hyper-parameter", "transformer_ is not derived from the hyper-parameter through _common_get_transform")
        ck.verdict(ok_o, "C13.c", fit, "transformer_.fit(X, y); transformer_.transform(X, y)", "targets are transformed by the fitted transformer", "the training targets are not the output of the fitted transformer")
        ck.verdict(ok_f, "C13.c", fit, f"self.{inner}.fit(X_trans, y_trans, ...)", "the inner model is trained on the TRANSFORMED target", "the inner model is not trained on (X_trans, y_trans): it learns the original target and predictions are inverse-transformed nevertheless")
        if ok_w and star_unknown:
            ck.unknown("C13.c", fit, "sample_weight forwarded", "the keyword arguments of the inner fit travel in a mapping this rule does not open: whether the weights are in it is not decided")
        else:
            ck.verdict(ok_w, "C13.c", fit, "sample_weight forwarded", "weights reach the inner model", "sample weights are not forwarded")
        # read side
        if cname.endswith("Regressor2"):
            targets = [(ci.methods["predict"], {}, "self.regressor_.predict(XT)")]
        else:
            targets = [(ci.methods["_apply"], {"method": mname}, f"self.classifier_.{mname}(XT)") for mname in ("predict", "predict_proba", "decision_function")] + [(ci.methods["classes_"], {}, None)]
        for m, bnd, inner_call in targets:
            ps = [p for p in paths(m, bnd) if p.ret != RAISE]
            got = sorted(set(_t(inline_helpers(repo, m, p.ret)) if isinstance(p.ret, ast.AST) else str(p.ret) for p in ps))
            INV = "self.transformer_.get_fct_inv()"
            if m.name == "classes_":
                want_ = f"{INV}.transform(None, self.classifier_.classes_)[1]"
                got = sorted(set(_strip_order(g_) for g_ in got))
            else:
                Xp = m.named_params[1]
                xt_ = f"self.transformer_.transform({Xp}, None)[0]"
                want_ = f"{INV}.transform({xt_}, {inner_call.replace('XT', xt_)})[1]"
            label = f"{cname}.{m.name}" + (f"[{bnd['method']}]" if bnd else "")
            ck.verdict(got == [want_], "C13.c", m, f"{label}: return value", "every returned value is the target part of get_fct_inv().transform(.., <inner prediction>)", f"{label}: returns {got}: predictions are returned in the transformed space, or the value inverted is not the inner model's output")
        if cname.endswith("Classifier2"):
            for mname in ("predict", "predict_proba", "decision_function"):
                m = ci.methods[mname]
                r = [p.ret_text() for p in paths(m) if p.ret != RAISE]
                ck.verdict(r == [f"self._apply({m.named_params[1]}, '{mname}')"], "C13.c", m, f"return {r}", f"{mname} goes through _apply with its own name", f"{mname} does not call _apply(X, '{mname}')")
    g = repo.func(TP, "_common_get_transform")
    r = sorted(set(p.ret_text() for p in paths(g) if p.ret != RAISE))
    ck.verdict(r == sorted([f"PermutationReciprocalTransformer(closest={g.named_params[1]})", f"FunctionReciprocalTransformer({g.named_params[0]})", f"clone({g.named_params[0]})"]), "C13.c", g, f"returns {r}", "string -> predefined transformer, object -> clone", f"_common_get_transform returns {r}")


def run(ck):
    repo = ck.repo
    for k, v in RULES.items():
        ck.rule(k, v)
    check_a(ck, repo)
    check_b(ck, repo)
    check_c(ck, repo)
    check_d(ck, repo)
    from .sem import share_clauses

    share_clauses(ck, "c02", {
        "C02.d": ("C13.e", "the inner regressor / classifier and the transformer trained by fit are clones: nobody else's later fit changes what the target predictor answers"),
    }, keep=lambda o: o.file.endswith(("target_predictors.py", "sklearn_transform_inv.py", "sklearn_transform_inv_fct.py")))
    ck.require_count("C13.d", 1, "classes_ order vs probability columns")
    ck.require_count("C13.a", 10, "six entries x (involution, name/function, inverse class)")
    ck.require_count("C13.b", 8, "fit, get_fct_inv, transform of both transformers")
    ck.require_count("C13.c", 10, "fit flow and read-side flow of both meta-estimators")


_F = "mlinsights/mlmodel/sklearn_transform_inv_fct.py"
_T = "mlinsights/mlmodel/target_predictors.py"
WITNESSES = [
    {"name": "probability-branch-returns-input", "file": _F, "rule": "C13.b", "old": "                yp[:, new_perm[i]] = y[:, i]\n            return X, yp\n", "new": "                yp[:, new_perm[i]] = y[:, i]\n            return X, y\n"},
    {"name": "table-wrong-inverse-name", "file": _F, "rule": "C13.a", "old": '"exp(x)-1": (lambda x: numpy.exp(x) - 1, "log(1+x)")', "new": '"exp(x)-1": (lambda x: numpy.exp(x) - 1, "log")'},
    {"name": "table-function-not-its-name", "file": _F, "rule": "C13.a", "old": '"log(1+x)": (lambda x: numpy.log(x + 1), "exp(x)-1")', "new": '"log(1+x)": (lambda x: numpy.log(x) + 1, "exp(x)-1")'},
    {"name": "table-log1p-is-log", "file": _F, "rule": "C13.a", "old": '"log1p": (numpy.log1p, "expm1")', "new": '"log1p": (numpy.log, "expm1")'},
    {"name": "table-missing-key", "file": _F, "rule": "C13.a", "old": '"expm1": (numpy.expm1, "log1p")', "new": '"expm1": (numpy.expm1, "log1")'},
    {"name": "inv-not-swapped", "file": _F, "rule": "C13.b", "old": "res = FunctionReciprocalTransformer(self.fct_inv_, self.fct_)", "new": "res = FunctionReciprocalTransformer(self.fct_, self.fct_inv_)"},
    {"name": "permutation-inv-not-swapped", "file": _F, "rule": "C13.b", "old": "{v: k for k, v in self.permutation_.items()}", "new": "{k: v for k, v in self.permutation_.items()}"},
    {"name": "transform-touches-X", "file": _F, "rule": "C13.b", "old": "        return X, self.fct_(y)\n", "new": "        return self.fct_(X), self.fct_(y)\n"},
    {"name": "proba-columns-not-moved", "file": _F, "rule": "C13.b", "old": "                yp[:, new_perm[i]] = y[:, i]\n", "new": "                yp[:, i] = y[:, new_perm[i]]\n"},
    {"name": "regressor-trained-on-raw-target", "file": _T, "rule": "C13.c", "old": "            self.regressor_.fit(X_trans, y_trans)\n", "new": "            self.regressor_.fit(X_trans, y)\n"},
    {"name": "predict-returns-transformed", "file": _T, "rule": "C13.c", "old": "        _, pred_inv = inv.transform(X_trans, pred)\n        return pred_inv\n\n    def score(self, X, y, sample_weight=None):\n        \"\"\"\n        Scores the model with\n        :epkg:`sklearn:metrics:r2_score`.", "new": "        _, pred_inv = inv.transform(X_trans, pred)\n        return pred\n\n    def score(self, X, y, sample_weight=None):\n        \"\"\"\n        Scores the model with\n        :epkg:`sklearn:metrics:r2_score`."},
    {"name": "classes-not-inverted", "file": _T, "rule": "C13.c", "old": "        _, pred_inv = inv.transform(None, self.classifier_.classes_)\n        return pred_inv\n", "new": "        return self.classifier_.classes_\n"},
    {"name": "apply-forward-transform", "file": _T, "rule": "C13.c", "old": "        pred = meth(X_trans)\n        inv = self.transformer_.get_fct_inv()\n", "new": "        pred = meth(X_trans)\n        inv = self.transformer_\n"},
    {"name": "proba-uses-predict", "file": _T, "rule": "C13.c", "old": '        return self._apply(X, "predict_proba")\n', "new": '        return self._apply(X, "predict")\n'},
]
# witnesses of the rules added after the ninth round of independent changes
WITNESSES += [
    {"name": "int32-labels-taken-for-scores", "file": _F, "rule": "C13.b", "old": "(numpy.str_, numpy.int32, numpy.int64)", "new": "(numpy.str_, numpy.int_)"},
]


TWINS = [
    {"name": "table-log1p-lambda", "file": _F, "old": '"log(1+x)": (lambda x: numpy.log(x + 1), "exp(x)-1")', "new": '"log(1+x)": (lambda z: numpy.log(1 + z), "exp(x)-1")'},
]
MIN_WITNESSES = 11
