"""T4: co-indexing and gather/scatter pairing (def-use based).

A *gather* is `A[m]` / `A[m, :]` / `A[m, ...]` whose first index `m` is not
integer-like (a boolean mask or an index array).  Each gather gets a
*signature*: (text of the index expression, the reaching definitions of every
name in it at the point where the gather is evaluated).  In-place mutations
count as definitions, so `ind[k] = True` between two uses of `ind` changes the
signature.  Rules built on signatures:

  scatter    t = g(.. A[m] ..) ; OUT[m'] = t           =>  sig(m') == sig(m)
  ret-pair   return m', g(.. A[m] ..)                    =>  sig(m') == sig(m)
  co-index   h(A[m1], B[m2], ...) for row-aligned calls  =>  equal signature sets

A local that has several reaching definitions (e.g. `Xi` defined before and
after a block that extends the mask) carries the *set* of signatures of its
definitions; co-indexed arguments must carry equal sets.
"""

from __future__ import annotations

import ast
from typing import Dict, FrozenSet, List, Optional, Set, Tuple

from .src import FunctionInfo, src_of
from .dataflow import ReachingDefs

Sig = Tuple[str, FrozenSet[Tuple[str, int]]]


class Pairing:
    def __init__(self, fi: FunctionInfo, int_names: Set[str]):
        self.fi = fi
        self.rd = ReachingDefs(fi.node)
        self.ints = int_names

    # --------------------------------------------------------------- helpers
    @staticmethod
    def first_index(sl: ast.AST) -> ast.AST:
        if isinstance(sl, ast.Tuple) and sl.elts:
            return sl.elts[0]
        return sl

    def is_int_like(self, e: ast.AST) -> bool:
        if isinstance(e, (ast.Slice, ast.Constant)):
            return True
        if isinstance(e, ast.Name):
            return e.id in self.ints
        if isinstance(e, ast.UnaryOp):
            return self.is_int_like(e.operand)
        if isinstance(e, ast.BinOp):
            return self.is_int_like(e.left) and self.is_int_like(e.right)
        if isinstance(e, ast.Attribute) and e.attr == "newaxis":
            return True
        return False

    def sig(self, index: ast.AST, at: ast.AST) -> Optional[Sig]:
        node = self.rd.node_of(at)
        if node is None:
            return None
        defs = set()
        for nm in {x.id for x in ast.walk(index) if isinstance(x, ast.Name)}:
            for d in self.rd.reaching(nm, node):
                defs.add((nm, d))
        return (src_of(index), frozenset(defs))

    @staticmethod
    def unwrap(e: ast.AST) -> ast.AST:
        """strip value-preserving wrappers: .copy() .astype() .ravel() .reshape(),
        `x if c else None`."""
        while True:
            if isinstance(e, ast.Call) and isinstance(e.func, ast.Attribute) and e.func.attr in ("copy", "astype", "ravel", "reshape", "toarray", "todense", "flatten"):
                e = e.func.value
                continue
            if isinstance(e, ast.IfExp):
                a, b = e.body, e.orelse
                if isinstance(b, ast.Constant) and b.value is None:
                    e = a
                    continue
                if isinstance(a, ast.Constant) and a.value is None:
                    e = b
                    continue
            return e

    def gather_sigs(self, e: ast.AST, at: ast.AST, depth: int = 0) -> Optional[Set[Sig]]:
        """signature set of the gather(s) feeding `e`; None when `e` is not
        (only) a gather."""
        e = self.unwrap(e)
        if isinstance(e, ast.Subscript):
            idx = self.first_index(e.slice)
            if not self.is_int_like(idx):
                s = self.sig(idx, at)
                return {s} if s is not None else None
            # a basic-index view of something (ys[:, newaxis]) keeps the rows of its base
            if isinstance(idx, ast.Slice) and depth < 8:
                return self.gather_sigs(e.value, at, depth + 1)
            return None
        if isinstance(e, ast.Name) and depth < 8:
            node = self.rd.node_of(at)
            if node is None:
                return None
            out: Set[Sig] = set()
            dns = self.rd.def_nodes(e.id, node)
            if not dns:
                return None
            for dn in dns:
                if dn is None or dn.kind != "stmt" or not isinstance(dn.ast, ast.Assign):
                    return None
                val = dn.ast.value
                for t in dn.ast.targets:
                    if isinstance(t, (ast.Tuple, ast.List)) and isinstance(val, (ast.Tuple, ast.List)) and len(t.elts) == len(val.elts):
                        for te, ve in zip(t.elts, val.elts):
                            if isinstance(te, ast.Name) and te.id == e.id:
                                val = ve
                s = self.gather_sigs(val, dn.ast, depth + 1)
                if s is None:
                    return None
                out |= s
            return out
        return None

    def call_gather_sigs(self, call: ast.Call) -> List[Tuple[str, Set[Sig], ast.AST]]:
        out = []
        for i, a in enumerate(call.args):
            if isinstance(a, ast.Starred):
                continue
            s = self.gather_sigs(a, call)
            if s:
                out.append((f"arg{i}", s, a))
        for kw in call.keywords:
            if kw.arg is None:
                continue
            s = self.gather_sigs(kw.value, call)
            if s:
                out.append((kw.arg, s, kw.value))
        return out

    def value_gather_sigs(self, v: ast.AST, at: ast.AST, depth: int = 0) -> List[Tuple[Set[Sig], ast.AST]]:
        """signature sets of the gathers passed to the call that produces value
        `v` (directly or through locals)."""
        if isinstance(v, ast.Call):
            return [(s, a) for _, s, a in self.call_gather_sigs(v)]
        if isinstance(v, ast.Name) and depth < 3:
            node = self.rd.node_of(at)
            if node is None:
                return []
            res = []
            for dn in self.rd.def_nodes(v.id, node):
                if dn is None or dn.kind != "stmt" or not isinstance(dn.ast, ast.Assign):
                    return []
                val = dn.ast.value
                if not isinstance(val, (ast.Call, ast.Name)):
                    return []
                res += self.value_gather_sigs(val, dn.ast, depth + 1)
            return res
        return []


def fmt_sig(s: Sig) -> str:
    return f"{s[0]}@defs{sorted(d for _, d in s[1])}"


def fmt_sigs(ss: Set[Sig]) -> str:
    return "{" + ", ".join(sorted(fmt_sig(s) for s in ss)) + "}"
