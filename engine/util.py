"""Small AST helpers shared by the rules."""

from __future__ import annotations

import ast
from typing import Dict, Iterator, List, Optional, Set, Tuple

from .src import own_nodes, own_nodes_incl_lambda, dotted


def is_self_attr(node: ast.AST, attr: Optional[str] = None, selfname: str = "self") -> bool:
    return (
        isinstance(node, ast.Attribute)
        and isinstance(node.value, ast.Name)
        and node.value.id == selfname
        and (attr is None or node.attr == attr)
    )


def assign_targets(stmt: ast.AST) -> List[ast.AST]:
    """Flattened list of target expressions of an assignment-like statement."""
    out: List[ast.AST] = []

    def flat(t):
        if isinstance(t, (ast.Tuple, ast.List)):
            for e in t.elts:
                flat(e)
        elif isinstance(t, ast.Starred):
            flat(t.value)
        else:
            out.append(t)

    if isinstance(stmt, ast.Assign):
        for t in stmt.targets:
            flat(t)
    elif isinstance(stmt, (ast.AugAssign, ast.AnnAssign)):
        flat(stmt.target)
    elif isinstance(stmt, (ast.For, ast.AsyncFor)):
        flat(stmt.target)
    elif isinstance(stmt, (ast.With, ast.AsyncWith)):
        for it in stmt.items:
            if it.optional_vars is not None:
                flat(it.optional_vars)
    elif isinstance(stmt, ast.NamedExpr):
        flat(stmt.target)
    return out


def assigned_names(stmt: ast.AST) -> Set[str]:
    return {t.id for t in assign_targets(stmt) if isinstance(t, ast.Name)}


def names_in(expr: Optional[ast.AST]) -> Set[str]:
    if expr is None:
        return set()
    return {n.id for n in ast.walk(expr) if isinstance(n, ast.Name)}


def calls_in(node: ast.AST) -> Iterator[ast.Call]:
    for n in ast.walk(node):
        if isinstance(n, ast.Call):
            yield n


def call_name(call: ast.Call) -> Optional[str]:
    return dotted(call.func)


def kwarg(call: ast.Call, name: str) -> Optional[ast.AST]:
    for k in call.keywords:
        if k.arg == name:
            return k.value
    return None


def arg_or_kw(call: ast.Call, pos: int, name: str) -> Optional[ast.AST]:
    v = kwarg(call, name)
    if v is not None:
        return v
    if pos < len(call.args) and not any(isinstance(a, ast.Starred) for a in call.args[: pos + 1]):
        return call.args[pos]
    return None


def const_value(node: Optional[ast.AST]):
    if isinstance(node, ast.Constant):
        return node.value
    return _NOCONST


class _NoConst:
    def __repr__(self):
        return "<not-a-constant>"


_NOCONST = _NoConst()
NOCONST = _NOCONST


def parent_chain(node: ast.AST) -> Iterator[ast.AST]:
    p = getattr(node, "_parent", None)
    while p is not None:
        yield p
        p = getattr(p, "_parent", None)


def enclosing_stmt(node: ast.AST) -> ast.AST:
    n = node
    while not isinstance(n, ast.stmt):
        n = n._parent  # type: ignore[attr-defined]
    return n


def enclosing_tests(node: ast.AST, stop: Optional[ast.AST] = None) -> List[Tuple[ast.AST, bool]]:
    """(test, polarity) of the If / IfExp / While constructs enclosing `node`
    (innermost first) up to the function `stop`."""
    out = []
    child = node
    for p in parent_chain(node):
        if p is stop:
            break
        if isinstance(p, (ast.If, ast.While)):
            if _contains(p.body, child):
                out.append((p.test, True))
            elif _contains(p.orelse, child):
                out.append((p.test, False))
        elif isinstance(p, ast.IfExp):
            if p.body is child:
                out.append((p.test, True))
            elif p.orelse is child:
                out.append((p.test, False))
        if isinstance(p, (ast.FunctionDef, ast.AsyncFunctionDef, ast.Lambda)) and stop is None:
            break
        child = p
    return out


def _contains(body, child) -> bool:
    return any(child is b for b in body)


def stmts_in_order(func: ast.AST) -> List[ast.stmt]:
    """All statements of a function in source order (nested defs excluded)."""
    out = [n for n in own_nodes(func) if isinstance(n, ast.stmt)]
    out.sort(key=lambda s: (s.lineno, s.col_offset))
    return out


def find_calls(func: ast.AST, pred) -> List[ast.Call]:
    out = [n for n in own_nodes_incl_lambda(func) if isinstance(n, ast.Call) and pred(n)]
    out.sort(key=lambda s: (s.lineno, s.col_offset))
    return out


def docless_body(func) -> List[ast.stmt]:
    b = list(func.body)
    if b and isinstance(b[0], ast.Expr) and isinstance(b[0].value, ast.Constant) and isinstance(b[0].value.value, str):
        b = b[1:]
    return b


def strip_docstrings(tree: ast.AST) -> ast.AST:
    for n in ast.walk(tree):
        if isinstance(n, (ast.FunctionDef, ast.AsyncFunctionDef, ast.ClassDef, ast.Module)):
            if n.body and isinstance(n.body[0], ast.Expr) and isinstance(n.body[0].value, ast.Constant) and isinstance(n.body[0].value.value, str):
                n.body = n.body[1:] or [ast.Pass()]
    return tree


def self_attr_stores(func: ast.AST, selfname: str = "self") -> List[Tuple[str, ast.stmt, ast.AST]]:
    """(attr, statement, target) for every `self.attr = ...`, `self.attr op= ...`,
    `setattr(self, 'attr', ...)` and tuple-target variants."""
    out = []
    for n in own_nodes(func):
        if isinstance(n, (ast.Assign, ast.AugAssign, ast.AnnAssign, ast.For, ast.With)):
            for t in assign_targets(n):
                if is_self_attr(t, None, selfname):
                    out.append((t.attr, n, t))
        elif isinstance(n, ast.Call) and isinstance(n.func, ast.Name) and n.func.id == "setattr" and len(n.args) >= 2:
            if isinstance(n.args[0], ast.Name) and n.args[0].id == selfname:
                k = const_value(n.args[1])
                out.append((k if isinstance(k, str) else "*", enclosing_stmt(n), n))
        elif isinstance(n, ast.Delete):
            for t in n.targets:
                if is_self_attr(t, None, selfname):
                    out.append((t.attr, n, t))
    out.sort(key=lambda x: (x[1].lineno, x[1].col_offset))
    return out


def clone_ast(node):
    """deep copy of an AST restricted to its syntactic fields and positions
    (copy.deepcopy would follow the `_parent` / `_finfo` back links the engine
    attaches and copy the whole module each time)"""
    if isinstance(node, list):
        return [clone_ast(x) for x in node]
    if not isinstance(node, ast.AST):
        return node
    new = node.__class__()
    for f in node._fields:
        if hasattr(node, f):
            setattr(new, f, clone_ast(getattr(node, f)))
    for a in ("lineno", "col_offset", "end_lineno", "end_col_offset"):
        if hasattr(node, a):
            setattr(new, a, getattr(node, a))
    return new
