"""E-ABS (string segments): abstract evaluation of key-decoding expressions.

An abstract string is a sequence of segments
    Lit(text)            a literal
    Int(sym)             decimal digits of a non-negative integer `sym`,
                         of symbolic length L(sym) >= 1, containing no '_'
    Rest(sym)            an arbitrary string (may contain '__')
    Ident(sym)           a parameter name: non-empty, symbolic length L(sym),
                         containing no '__' (scikit-learn's own convention)
Integers are linear forms  c0 + sum c_s * L(s)  (lengths), or the symbolic
integer value IntVal(sym) produced by int(Int(sym)).

Supported: constants, names (environment), `+` on ints and on strings,
len(), str.startswith(lit), slicing with abstract bounds, str.split(lit, 1),
subscripts of abstract lists, int(), f-strings.  Anything else -> Unknown.
"""

from __future__ import annotations

import ast
from dataclasses import dataclass
from typing import Dict, List, Optional, Tuple, Union


class Unknown(Exception):
    pass


@dataclass(frozen=True)
class Lit:
    text: str


@dataclass(frozen=True)
class Int:
    sym: str


@dataclass(frozen=True)
class Rest:
    sym: str


@dataclass(frozen=True)
class Ident:
    sym: str


@dataclass(frozen=True)
class AStr:
    segs: Tuple[object, ...]

    def __repr__(self):
        return "".join(
            s.text if isinstance(s, Lit) else ("{" + s.sym + "}" if isinstance(s, Int) else "<" + s.sym + ">") for s in self.segs
        )


@dataclass(frozen=True)
class ALen:
    """linear form const + sum coef[sym]*len(sym)"""

    const: int
    coef: Tuple[Tuple[str, int], ...] = ()

    def __add__(self, o: "ALen") -> "ALen":
        d = dict(self.coef)
        for k, v in o.coef:
            d[k] = d.get(k, 0) + v
        return ALen(self.const + o.const, tuple(sorted((k, v) for k, v in d.items() if v)))

    def is_const(self):
        return not self.coef


@dataclass(frozen=True)
class IntVal:
    sym: str


@dataclass(frozen=True)
class AList:
    items: Tuple[object, ...]


def mk(*segs) -> AStr:
    out: List[object] = []
    for s in segs:
        if isinstance(s, str):
            s = Lit(s)
        if isinstance(s, Lit) and not s.text:
            continue
        if out and isinstance(s, Lit) and isinstance(out[-1], Lit):
            out[-1] = Lit(out[-1].text + s.text)
        else:
            out.append(s)
    return AStr(tuple(out))


def _drop_prefix(s: AStr, n: ALen) -> AStr:
    """s[n:] where n is an abstract length.  Defined when n can be consumed
    segment by segment: literal chars against the constant part, a whole Int
    segment against its own L(sym) term."""
    const, coef = n.const, dict(n.coef)
    segs = list(s.segs)
    while segs:
        if const == 0 and not coef:
            break
        h = segs[0]
        if isinstance(h, Lit):
            if const >= len(h.text):
                const -= len(h.text)
                segs.pop(0)
            elif const > 0 and not coef:
                segs[0] = Lit(h.text[const:])
                const = 0
            else:
                raise Unknown("slice offset falls inside a literal while symbolic length remains")
        elif isinstance(h, (Int, Ident)):
            if coef.get(h.sym, 0) == 1:
                del coef[h.sym]
                segs.pop(0)
            else:
                # an offset that is a constant cuts inside digits of unknown
                # length: the result depends on L(sym)
                raise Mismatch(f"offset {n} does not account for the length of {{{h.sym}}}")
        else:
            raise Unknown("slice offset reaches an arbitrary segment")
    if const or coef:
        raise Unknown("slice offset exceeds the known part of the string")
    return mk(*segs)


class Mismatch(Exception):
    """A definite disagreement for some value of the symbolic lengths."""


def evaluate(e: ast.AST, env: Dict[str, object]):
    if isinstance(e, ast.Constant):
        if isinstance(e.value, str):
            return mk(e.value)
        if isinstance(e.value, bool):
            return e.value
        if isinstance(e.value, int):
            return ALen(e.value)
        raise Unknown(f"constant {e.value!r}")
    if isinstance(e, ast.Name):
        if e.id in env:
            return env[e.id]
        raise Unknown(f"name {e.id}")
    if isinstance(e, ast.JoinedStr):
        parts = []
        for v in e.values:
            if isinstance(v, ast.Constant):
                parts.append(Lit(v.value))
            elif isinstance(v, ast.FormattedValue) and v.format_spec is None and v.conversion == -1:
                x = evaluate(v.value, env)
                if isinstance(x, IntVal):
                    parts.append(Int(x.sym))
                elif isinstance(x, AStr):
                    parts.extend(x.segs)
                else:
                    raise Unknown("formatted value")
            else:
                raise Unknown("format spec")
        return mk(*parts)
    if isinstance(e, ast.BinOp) and isinstance(e.op, ast.Add):
        a, b = evaluate(e.left, env), evaluate(e.right, env)
        if isinstance(a, ALen) and isinstance(b, ALen):
            return a + b
        if isinstance(a, AStr) and isinstance(b, AStr):
            return mk(*a.segs, *b.segs)
        raise Unknown("+ on mixed kinds")
    if isinstance(e, ast.Call):
        f = e.func
        if isinstance(f, ast.Name) and f.id == "len" and len(e.args) == 1:
            x = evaluate(e.args[0], env)
            if isinstance(x, AList):
                return ALen(len(x.items))
            if isinstance(x, AStr):
                tot = ALen(0)
                for s in x.segs:
                    if isinstance(s, Lit):
                        tot = tot + ALen(len(s.text))
                    elif isinstance(s, (Int, Ident)):
                        tot = tot + ALen(0, ((s.sym, 1),))
                    else:
                        raise Unknown("len of arbitrary segment")
                return tot
            raise Unknown("len")
        if isinstance(f, ast.Name) and f.id == "int" and len(e.args) == 1:
            x = evaluate(e.args[0], env)
            if isinstance(x, AStr) and len(x.segs) == 1 and isinstance(x.segs[0], Int):
                return IntVal(x.segs[0].sym)
            if isinstance(x, AStr):
                raise Mismatch(f"int() applied to {x!r}, which is not the index digits")
            raise Unknown("int")
        if isinstance(f, ast.Name) and f.id == "str" and len(e.args) == 1:
            x = evaluate(e.args[0], env)
            if isinstance(x, IntVal):
                return mk(Int(x.sym))
            if isinstance(x, AStr):
                return x
            raise Unknown("str")
        if isinstance(f, ast.Attribute):
            recv = evaluate(f.value, env)
            if f.attr == "startswith" and isinstance(recv, AStr) and len(e.args) == 1:
                p = evaluate(e.args[0], env)
                if isinstance(p, AStr) and all(isinstance(s, Lit) for s in p.segs):
                    return _startswith(recv, "".join(s.text for s in p.segs))
                raise Unknown("startswith non literal")
            if f.attr in ("split", "partition") and isinstance(recv, AStr) and e.args:
                sep = evaluate(e.args[0], env)
                if not (isinstance(sep, AStr) and len(sep.segs) == 1 and isinstance(sep.segs[0], Lit)):
                    raise Unknown("split separator")
                sep = sep.segs[0].text
                maxsplit = None
                if f.attr == "split" and len(e.args) > 1:
                    m = evaluate(e.args[1], env)
                    if isinstance(m, ALen) and m.is_const():
                        maxsplit = m.const
                if f.attr == "split" and maxsplit != 1:
                    raise Unknown("split without maxsplit=1")
                a, b = _split_first(recv, sep)
                if f.attr == "partition":
                    return AList((a, mk(sep), b))
                return AList((a, b))
            if f.attr in ("removeprefix",) and isinstance(recv, AStr) and len(e.args) == 1:
                p = evaluate(e.args[0], env)
                if isinstance(p, AStr) and all(isinstance(s, Lit) for s in p.segs):
                    t = "".join(s.text for s in p.segs)
                    if _startswith(recv, t) is True:
                        return _drop_prefix(recv, ALen(len(t)))
                raise Unknown("removeprefix")
        raise Unknown(f"call {ast.unparse(e)}")
    if isinstance(e, ast.Compare) and len(e.ops) == 1:
        # k == "lit", k != "lit", k in ("a", "b"), k not in (...): decided when
        # the known prefix of the abstract string already excludes the literal
        op, right = e.ops[0], e.comparators[0]
        left = evaluate(e.left, env)
        if isinstance(left, AStr) and isinstance(op, (ast.Eq, ast.NotEq, ast.In, ast.NotIn)):
            if isinstance(op, (ast.Eq, ast.NotEq)):
                cands = [right]
            elif isinstance(right, (ast.Tuple, ast.List, ast.Set)):
                cands = list(right.elts)
            else:
                raise Unknown("membership in a non-literal container")
            verdicts = []
            for c in cands:
                if not (isinstance(c, ast.Constant) and isinstance(c.value, str)):
                    raise Unknown("comparison with a non-literal")
                verdicts.append(_equals(left, c.value))
            if all(v is False for v in verdicts):
                res = False
            elif any(v is True for v in verdicts):
                res = True
            else:
                raise Unknown("comparison undecided for the abstract key")
            return (not res) if isinstance(op, (ast.NotEq, ast.NotIn)) else res
        raise Unknown("comparison")
    if isinstance(e, ast.Subscript):
        base = evaluate(e.value, env)
        sl = e.slice
        if isinstance(base, AList):
            i = evaluate(sl, env) if not isinstance(sl, ast.Slice) else None
            if isinstance(i, ALen) and i.is_const() and -len(base.items) <= i.const < len(base.items):
                return base.items[i.const]
            raise Unknown("list subscript")
        if isinstance(base, AStr) and not isinstance(sl, ast.Slice):
            # a single character k[n]
            off = evaluate(sl, env)
            if isinstance(off, ALen):
                rest = _drop_prefix(base, off)
                if rest.segs and isinstance(rest.segs[0], Lit):
                    return mk(rest.segs[0].text[0])
                if rest.segs and isinstance(rest.segs[0], Int):
                    raise Mismatch(f"reads a single character of the index {{{rest.segs[0].sym}}}: only one-digit indices are decoded")
            raise Unknown("character subscript")
        if isinstance(base, AStr) and isinstance(sl, ast.Slice) and sl.step is None:
            if sl.upper is not None:
                lo = evaluate(sl.lower, env) if sl.lower is not None else ALen(0)
                hi = evaluate(sl.upper, env)
                if isinstance(lo, ALen) and isinstance(hi, ALen):
                    return _take(_drop_prefix(base, lo), hi + ALen(-lo.const, tuple((k, -v) for k, v in lo.coef)))
                raise Unknown("slice bounds")
            lo = evaluate(sl.lower, env) if sl.lower is not None else ALen(0)
            if not isinstance(lo, ALen):
                raise Unknown("slice lower")
            return _drop_prefix(base, lo)
        raise Unknown("subscript")
    raise Unknown(type(e).__name__)


def _take(s: AStr, n: ALen) -> AStr:
    const, coef = n.const, dict(n.coef)
    out = []
    for h in s.segs:
        if const == 0 and not coef:
            break
        if isinstance(h, Lit):
            if const >= len(h.text):
                const -= len(h.text)
                out.append(h)
            elif not coef:
                out.append(Lit(h.text[:const]))
                const = 0
            else:
                raise Unknown("take")
        elif isinstance(h, (Int, Ident)) and coef.get(h.sym, 0) == 1:
            del coef[h.sym]
            out.append(h)
        elif isinstance(h, (Int, Ident)):
            raise Mismatch(f"length {n} does not account for the length of {{{h.sym}}}")
        else:
            raise Unknown("take reaches arbitrary segment")
    if const or coef:
        raise Unknown("take exceeds string")
    return mk(*out)


def _equals(s: AStr, t: str):
    """True / False when definite, None otherwise."""
    if all(isinstance(x, Lit) for x in s.segs):
        return "".join(x.text for x in s.segs) == t
    try:
        if _startswith(s, t) is False:
            return False
    except Unknown:
        pass
    # literal segments that must occur in order
    pos = 0
    for x in s.segs:
        if isinstance(x, Lit):
            j = t.find(x.text, pos)
            if j < 0:
                return False
            pos = j + len(x.text)
    return None


def _startswith(s: AStr, t: str):
    """True / False when definite, else Unknown."""
    pos = 0
    for seg in s.segs:
        if pos >= len(t):
            return True
        if isinstance(seg, Lit):
            part = t[pos : pos + len(seg.text)]
            if seg.text[: len(part)] != part:
                return False
            pos += len(part)
            if len(part) < len(seg.text):
                return True
        elif isinstance(seg, Int):
            # digits: the remaining prefix must start with a digit to match
            if not t[pos].isdigit():
                return False
            raise Unknown("startswith into digits")
        else:
            raise Unknown("startswith into arbitrary segment")
    if pos >= len(t):
        return True
    raise Unknown("startswith beyond known part")


def _split_first(s: AStr, sep: str) -> Tuple[AStr, AStr]:
    """Split at the first occurrence of sep.  Lit and Int segments are scanned;
    Int segments contain only digits (so never the separator '__')."""
    before: List[object] = []
    segs = list(s.segs)
    for idx, seg in enumerate(segs):
        if isinstance(seg, Lit):
            j = seg.text.find(sep)
            if j >= 0:
                return mk(*before, seg.text[:j]), mk(seg.text[j + len(sep) :], *segs[idx + 1 :])
            # a separator straddling into the next segment is impossible when
            # the next segment is digits and sep has no digit
            before.append(seg)
        elif isinstance(seg, Int):
            if any(ch.isdigit() for ch in sep):
                raise Unknown("separator may occur in digits")
            before.append(seg)
        elif isinstance(seg, Ident):
            if sep != "__":
                raise Unknown("separator may occur in a parameter name")
            before.append(seg)
        else:
            raise Unknown("split reaches an arbitrary segment before any separator")
    raise Unknown("no separator found in the known part")
