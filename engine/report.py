"""Obligations, verdicts, evidence files and the output contract.

exit 0  every obligation HOLDS (or is a listed known finding)
exit 1  at least one VIOLATED obligation not listed in known_findings.json
exit 2  ANALYSIS-ERROR: a shape the analyser does not understand
"""

from __future__ import annotations

import ast
import glob
import json
import os
import time
from dataclasses import dataclass, field, asdict
from typing import Dict, List, Optional

HOLDS, VIOLATED, UNKNOWN = "HOLDS", "VIOLATED", "UNKNOWN"

VERIF = os.path.dirname(os.path.dirname(os.path.abspath(__file__)))


def norm_stmt(node_or_text) -> str:
    """Normalised one-line text of a statement: the identity of a finding
    (never a line number)."""
    if isinstance(node_or_text, ast.AST):
        try:
            t = ast.unparse(node_or_text)
        except Exception:
            t = type(node_or_text).__name__
    else:
        t = str(node_or_text)
    t = " ".join(t.split())
    return t[:200]


@dataclass
class Obligation:
    rule: str
    file: str
    function: str
    statement: str
    verdict: str
    detail: str = ""
    line: int = 0
    path: str = ""
    nontrivial: bool = True

    def key(self):
        return (self.rule, self.function, self.statement)

    def short(self):
        return f"{self.file}::{self.function}::{self.statement} -> {self.verdict}"


class Checker:
    def __init__(self, pid: str, tier: str, repo, seed: int = 0, quiet: bool = False):
        self.pid = pid
        self.tier = tier
        self.repo = repo
        self.seed = seed
        self.quiet = quiet
        self.obs: List[Obligation] = []
        self.rules_applied: Dict[str, str] = {}
        self.notes: List[str] = []
        self.extra: Dict[str, object] = {}
        self.assumptions: List[str] = []
        self.functions_analysed = set()
        self._decorated = {}
        self._touched_fis = {}
        self.t0 = time.time()

    # ------------------------------------------------------------ recording
    def rule(self, rid: str, text: str):
        self.rules_applied[rid] = text

    def touch(self, fi):
        """Record that a function was analysed."""
        if fi is not None:
            self.functions_analysed.add(getattr(fi, "qualname", str(fi)))
            if getattr(getattr(fi, "node", None), "decorator_list", None):
                self._decorated[getattr(fi, "qualname", str(fi))] = fi
            self._touched_fis[getattr(fi, "qualname", str(fi))] = fi

    def ob(self, rule, fi, stmt, verdict, detail="", path="", nontrivial=True, file=None, function=None, line=None):
        if fi is not None:
            self.touch(fi)
            file = file or fi.module.relpath
            function = function or fi.qualname.split(":", 1)[1]
        if line is None:
            line = getattr(stmt, "_orig_lineno", getattr(stmt, "lineno", 0)) if isinstance(stmt, ast.AST) else (getattr(fi.node, "_orig_lineno", fi.node.lineno) if fi is not None else 0)
        o = Obligation(rule, file or "?", function or "?", norm_stmt(stmt), verdict, detail, line, path, nontrivial)
        self.obs.append(o)
        return o

    def holds(self, rule, fi, stmt, detail="", **kw):
        return self.ob(rule, fi, stmt, HOLDS, detail, **kw)

    def violated(self, rule, fi, stmt, detail="", **kw):
        return self.ob(rule, fi, stmt, VIOLATED, detail, **kw)

    def unknown(self, rule, fi, stmt, detail="", **kw):
        return self.ob(rule, fi, stmt, UNKNOWN, detail, **kw)

    def verdict(self, cond: bool, rule, fi, stmt, ok="", bad="", **kw):
        return self.ob(rule, fi, stmt, HOLDS if cond else VIOLATED, ok if cond else bad, **kw)

    def require_count(self, rule: str, minimum: int, what: str = ""):
        n = sum(1 for o in self.obs if o.rule == rule)
        if n < minimum:
            self.ob(
                rule,
                None,
                f"instance count {n} < {minimum}",
                UNKNOWN,
                f"rule {rule} matched {n} instance(s); {minimum} were confirmed by hand ({what}). "
                "A rule that matches fewer sites than confirmed would pass vacuously.",
                file="-",
                function="-",
                line=0,
            )

    def require_count_in(self, rule: str, function: str, minimum: int, what: str = ""):
        """instances of a rule inside one named function: when the function is still there
        but the construct the rule pairs is not, the function was rewritten into a shape the
        rule does not read - unknown, not a silent pass"""
        exists = any(q.split(":", 1)[-1] == function for q in self.repo.all_functions)
        if not exists:
            return
        n = sum(1 for o in self.obs if o.rule == rule and o.function == function)
        if n < minimum:
            self.ob(rule, None, f"{function}: instance count {n} < {minimum}", UNKNOWN, f"rule {rule} matched {n} instance(s) in {function}; {minimum} were confirmed by hand ({what}): the function no longer has the shape this rule reads, so the clause is not decided for it", file="-", function=function, line=0)

    # ------------------------------------------------------------ finishing
    def _decorator_guard(self):
        """a wrapped function does not mean what its body says: every analysed function
        carrying a decorator other than the descriptor ones is reported once"""
        from rules.sem import check_decorators
        for qn, fi in sorted(self._decorated.items()):
            fn = qn.split(":", 1)[-1]
            if any(o.function == fn and o.statement.startswith("@") for o in self.obs):
                continue
            rule = next((o.rule for o in self.obs if o.function == fn), None)
            if rule is not None:
                check_decorators(self, rule, [fi])

    def _shared_mutable_guard(self):
        from rules.sem import check_shared_mutables

        for qn, fi in sorted(self._touched_fis.items()):
            if getattr(fi, "node", None) is None or getattr(fi, "module", None) is None:
                continue
            fn = qn.split(":", 1)[-1]
            rule = next((o.rule for o in self.obs if o.function == fn), None)
            if rule is not None:
                check_shared_mutables(self, rule, fi)

    def finish(self, write=True) -> int:
        self._decorator_guard()
        self._shared_mutable_guard()
        kf = load_known_findings()
        open_k = [k for k in kf.get("open", []) if k.get("property") == self.pid]
        viol = [o for o in self.obs if o.verdict == VIOLATED]
        unk = [o for o in self.obs if o.verdict == UNKNOWN]
        known, fresh = [], []
        for o in viol:
            m = None
            for k in open_k:
                same_site = k.get("rule") == o.rule and k.get("function") == o.function
                dc = k.get("detail_contains") or []
                if same_site and (k.get("statement") == o.statement or (dc and all(x in (o.detail or "") for x in dc))):
                    m = k
                    break
            (known if m else fresh).append((o, m))
        fdir = os.path.join(VERIF, "evidence", "findings")
        lines = []
        if write:
            os.makedirs(fdir, exist_ok=True)
            for f in glob.glob(os.path.join(fdir, f"{self.pid}-*.json")):
                try:
                    os.remove(f)
                except OSError:
                    pass
        for o, k in known:
            lines.append(f"KNOWN-FINDING: property={self.pid} {o.rule} {o.file}::{o.function}::{o.statement} -- {k.get('what_fails', '')}")
        for i, (o, _) in enumerate(fresh):
            fpath = os.path.join(fdir, f"{self.pid}-{i}.json")
            if write:
                with open(fpath, "w") as f:
                    json.dump({"property": self.pid, **asdict(o)}, f, indent=1)
            lines.append(f"{o.file}:{o.line} {o.function} [{o.rule}] {o.statement} :: {o.detail}" + (f" :: path {o.path}" if o.path else ""))
            lines.append(f"VIOLATION property={self.pid} replay={fpath}")
        for o in unk:
            lines.append(f"ANALYSIS-ERROR property={self.pid} [{o.rule}] {o.file}::{o.function}::{o.statement} :: {o.detail}")
        code = 1 if fresh else (2 if unk else 0)
        wall = time.time() - self.t0
        distinct = len({(o.rule, o.function, o.statement) for o in self.obs if o.nontrivial})
        samples = [o.short() + (f" ({o.detail})" if o.detail else "") for o in self.obs[:: max(1, len(self.obs) // 12)]][:14]
        ev = {
            "property_id": self.pid,
            "tier": self.tier,
            "seed": self.seed,
            "level": "other",
            "coverage": {
                "explanation": "static analysis of /repo sources (ast/CFG/dataflow; nothing imported or run). Rules applied: "
                + "; ".join(f"{k}: {v}" for k, v in sorted(self.rules_applied.items())),
                "obligations": len(self.obs),
                "discharged": sum(1 for o in self.obs if o.verdict == HOLDS),
                "evaluations": len(self.obs),
                "distinct_nontrivial": distinct,
                "rule": "one obligation per (rule, construct) instance found in the current source; non-trivial = the verdict needed a derivation over a matched construct (count/vacuity guards excluded)",
                "samples": samples,
                "units_analysed": len(self.repo.modules) if self.repo is not None else 0,
                "functions_analysed": len(self.functions_analysed),
                "per_rule": _per_rule(self.obs),
                "known_findings_matched": len(known),
                "unknown": len(unk),
                "notes": self.notes,
                **self.extra,
            },
            "assumptions": self.assumptions
            or [
                "Python semantics of the statement kinds used",
                "external calls behave as classified in the rule's externals table",
                "no monkey-patching of package classes",
            ],
            "wall_s": round(wall, 3),
            "violations": len(fresh),
        }
        if write:
            os.makedirs(os.path.join(VERIF, "evidence"), exist_ok=True)
            with open(os.path.join(VERIF, "evidence", f"{self.pid}.json"), "w") as f:
                json.dump(ev, f, indent=1)
        self.lines = lines
        self.fresh = fresh
        self.known = known
        self.unk = unk
        if not self.quiet:
            print(
                f"[{self.pid}] tier={self.tier} obligations={len(self.obs)} holds={ev['coverage']['discharged']} "
                f"violated={len(viol)} (known={len(known)}) unknown={len(unk)} functions={len(self.functions_analysed)} wall={wall:.2f}s"
            )
            for rid, c in sorted(_per_rule(self.obs).items()):
                print(f"  rule {rid}: {c}")
            for ln in lines:
                print(ln)
        return code


def _per_rule(obs):
    d: Dict[str, Dict[str, int]] = {}
    for o in obs:
        r = d.setdefault(o.rule, {})
        r[o.verdict] = r.get(o.verdict, 0) + 1
    return d


def load_known_findings():
    p = os.path.join(VERIF, "known_findings.json")
    if not os.path.exists(p):
        return {"open": [], "fixed": []}
    with open(p) as f:
        return json.load(f)
