"""E-PATH: path-sensitive symbolic evaluation of small, loop-poor functions.

Every syntactic path through the statement tree is followed with an
environment local name -> expression (over the parameters); tests are folded
when their operands are constants (also after binding a parameter to a
constant: `method == "predict"`, `method in ("a", "b")`, `isinstance("x", str)`),
otherwise the path forks and records the canonical branch fact
(engine.guards.atoms).  A path ends at a return, a raise or the end of the body.

    Path.conds   facts assumed along the path (text, polarity)
    Path.ret     returned expression (expanded), None for fall-through, RAISE
    Path.stores  attribute / element stores executed: target text -> value
    Path.calls   call expressions evaluated (statements and sub-expressions), in order
    Path.env     final environment

Loops are not unrolled: names bound in a loop become opaque (`name__L<line>`)
and the loop body's calls are recorded once with the loop variable opaque.
Nothing is executed; no solver is involved - unfoldable tests simply fork.
"""

from __future__ import annotations

import ast
from dataclasses import dataclass, field
from typing import Dict, List, Optional, Tuple

from .util import clone_ast
from .guards import atoms
from . import norm

RAISE = "<raise>"
BREAK = "<break>"
CONTINUE = "<continue>"


@dataclass
class Path:
    conds: Tuple[Tuple[str, bool], ...] = ()
    env: Dict[str, ast.AST] = field(default_factory=dict)
    stores: Dict[str, ast.AST] = field(default_factory=dict)
    named_stores: Dict[str, ast.AST] = field(default_factory=dict)  # same stores, the target's root name kept (object identity)
    origin: Dict[str, ast.AST] = field(default_factory=dict)  # name / store key -> the statement that bound it last
    calls: List[ast.AST] = field(default_factory=list)
    ret: object = None
    raised: Optional[str] = None
    end: Optional[ast.AST] = None
    lits: Dict[str, ast.AST] = field(default_factory=dict)  # locals bound to a list/dict display and extended in place since
    alias: Dict[str, ast.AST] = field(default_factory=dict)  # local -> `other_local(.attr)*` it was bound to (same object or a view of it)

    def fork(self) -> "Path":
        q = Path(self.conds, dict(self.env), dict(self.stores), dict(self.named_stores), dict(self.origin), list(self.calls), self.ret, self.raised, self.end)
        q.lits = {k: clone_ast(v) for k, v in self.lits.items()}
        q.alias = dict(self.alias)
        return q

    def has(self, text_pol) -> bool:
        return text_pol in self.conds

    def ret_text(self) -> Optional[str]:
        if self.ret is None or isinstance(self.ret, str):
            return self.ret
        return text(self.ret)


def text(x: ast.AST) -> str:
    try:
        return ast.unparse(norm.canon(x, rename=False))
    except Exception:
        return ast.dump(x)


class _Sub(ast.NodeTransformer):
    def __init__(self, env, post=None):
        self.env = env
        self.bound: List[set] = []

    def _is_bound(self, name):
        return any(name in b for b in self.bound)

    def visit_Name(self, n):
        if isinstance(n.ctx, ast.Load) and n.id in self.env and not self._is_bound(n.id):
            return clone_ast(self.env[n.id])
        return n

    def visit_Attribute(self, n):
        if isinstance(n.ctx, ast.Load):
            try:
                t = ast.unparse(n)
            except Exception:
                t = None
            if t is not None and t in self.env:
                return clone_ast(self.env[t])
        return self.generic_visit(n)

    def visit_IfExp(self, n):
        self.generic_visit(n)
        f = fold(n.test)
        if f is True:
            return n.body
        if f is False:
            return n.orelse
        return n

    def _comp(self, n):
        b = set()
        for g in n.generators:
            for x in ast.walk(g.target):
                if isinstance(x, ast.Name):
                    b.add(x.id)
        # the first iterable is evaluated outside the comprehension scope
        gens = []
        for i, g in enumerate(n.generators):
            if i == 0:
                g.iter = self.visit(g.iter)
            gens.append(g)
        self.bound.append(b)
        for i, g in enumerate(n.generators):
            if i > 0:
                g.iter = self.visit(g.iter)
            g.ifs = [self.visit(x) for x in g.ifs]
        if isinstance(n, ast.DictComp):
            n.key = self.visit(n.key)
            n.value = self.visit(n.value)
        else:
            n.elt = self.visit(n.elt)
        self.bound.pop()
        return n

    visit_ListComp = visit_SetComp = visit_GeneratorExp = visit_DictComp = _comp

    def visit_Lambda(self, n):
        # defaults are evaluated where the lambda is created
        n.args.defaults = [self.visit(d) for d in n.args.defaults]
        n.args.kw_defaults = [self.visit(d) if d is not None else None for d in n.args.kw_defaults]
        self.bound.append({a.arg for a in n.args.args + n.args.kwonlyargs})
        n.body = self.visit(n.body)
        self.bound.pop()
        return n

    def visit_Call(self, n):
        self.generic_visit(n)
        # f(*(a, b)) -> f(a, b)
        if any(isinstance(a, ast.Starred) and isinstance(a.value, (ast.Tuple, ast.List)) for a in n.args):
            args = []
            for a in n.args:
                if isinstance(a, ast.Starred) and isinstance(a.value, (ast.Tuple, ast.List)):
                    args.extend(a.value.elts)
                else:
                    args.append(a)
            n.args = args
        if isinstance(n.func, ast.Name) and n.func.id == "getattr" and len(n.args) == 2 and isinstance(n.args[1], ast.Constant) and isinstance(n.args[1].value, str) and n.args[1].value.isidentifier():
            return ast.Attribute(value=n.args[0], attr=n.args[1].value, ctx=ast.Load())
        return n


def _const(x):
    """python value of a constant expression, or raise"""
    if isinstance(x, ast.Constant):
        return x.value
    if isinstance(x, (ast.Tuple, ast.List, ast.Set)):
        vals = [_const(e) for e in x.elts]
        return tuple(vals) if isinstance(x, ast.Tuple) else (list(vals) if isinstance(x, ast.List) else set(vals))
    if isinstance(x, ast.UnaryOp) and isinstance(x.op, ast.USub):
        return -_const(x.operand)
    raise ValueError


def fold(t: ast.AST) -> Optional[bool]:
    if isinstance(t, ast.Constant):
        return bool(t.value)
    if isinstance(t, ast.UnaryOp) and isinstance(t.op, ast.Not):
        v = fold(t.operand)
        return None if v is None else (not v)
    if isinstance(t, ast.BoolOp):
        vals = [fold(v) for v in t.values]
        if isinstance(t.op, ast.And):
            if any(v is False for v in vals):
                return False
            return True if all(v is True for v in vals) else None
        if any(v is True for v in vals):
            return True
        return False if all(v is False for v in vals) else None
    if isinstance(t, ast.Compare) and len(t.ops) == 1:
        l_, r_ = t.left, t.comparators[0]
        if isinstance(t.ops[0], (ast.Is, ast.IsNot)):
            for x_, y_ in ((l_, r_), (r_, l_)):
                if isinstance(x_, ast.Name) and x_.id.endswith("__set") and isinstance(y_, ast.Constant) and y_.value is None:
                    return isinstance(t.ops[0], ast.IsNot)  # a parameter bound to "some given value"
        try:
            a, b = _const(t.left), _const(t.comparators[0])
        except ValueError:
            # `<non-constant expression> is None`: an attribute / call result is unknown
            return None
        op = t.ops[0]
        try:
            if isinstance(op, ast.Eq):
                return a == b
            if isinstance(op, ast.NotEq):
                return a != b
            if isinstance(op, ast.In):
                return a in b
            if isinstance(op, ast.NotIn):
                return a not in b
            if isinstance(op, ast.Is):
                return a is b or (a is None and b is None)
            if isinstance(op, ast.IsNot):
                return not (a is b or (a is None and b is None))
            if isinstance(op, ast.Lt):
                return a < b
            if isinstance(op, ast.LtE):
                return a <= b
            if isinstance(op, ast.Gt):
                return a > b
            if isinstance(op, ast.GtE):
                return a >= b
        except TypeError:
            return None
    if isinstance(t, ast.Call) and isinstance(t.func, ast.Name):
        if t.func.id == "isinstance" and len(t.args) == 2 and isinstance(t.args[0], ast.Constant):
            ty = ast.unparse(t.args[1])
            v = t.args[0].value
            table = {"str": str, "int": int, "float": float, "bool": bool, "bytes": bytes}
            if ty in table:
                return isinstance(v, table[ty]) and not (ty == "int" and isinstance(v, bool))
        if t.func.id == "callable" and len(t.args) == 1 and isinstance(t.args[0], ast.Constant):
            return False
        if t.func.id == "bool" and len(t.args) == 1 and not t.keywords:
            return fold(t.args[0])
    if isinstance(t, (ast.Tuple, ast.List)):
        return bool(t.elts)
    return None


class PathEval:
    def __init__(self, func: ast.AST, bindings: Optional[Dict[str, ast.AST]] = None, post=None, max_paths: int = 400, call_hook=None):
        self.func = func
        self.bindings = dict(bindings or {})
        self.post = post
        self.max_paths = max_paths
        # call_hook(call) -> paths of a helper the caller wants looked through (or None)
        self.call_hook = call_hook
        self.done: List[Path] = []
        self.truncated = False

    def run(self, body=None) -> List[Path]:
        """paths through the function body, or through the given statement list
        (e.g. the body of a loop: break/continue then end a path)"""
        p = Path(env=dict(self.bindings))
        p.alias = dict(getattr(self, "init_alias", {}) or {})
        body = self.func.body if body is None else body
        body = [s for s in body if not (isinstance(s, ast.Expr) and isinstance(s.value, ast.Constant))]
        for st in self.block(body, [p]):
            st.end = None
            self.done.append(st)
        return self.done

    # ------------------------------------------------------------------
    def sub(self, e, p: Path):
        if e is None:
            return None
        c0 = clone_ast(e)
        marked = [n for n in ast.walk(c0) if isinstance(n, ast.Call)]
        for n in marked:
            n._orig = True  # calls written in this expression (not the ones substituted into it)
        if p.lits:
            for c in ast.walk(c0):
                if isinstance(c, ast.Call):
                    args = []
                    for a in c.args:
                        if isinstance(a, ast.Starred) and isinstance(a.value, ast.Name) and isinstance(p.lits.get(a.value.id), (ast.List, ast.Tuple)):
                            args.extend(clone_ast(e) for e in p.lits[a.value.id].elts)
                        else:
                            args.append(a)
                    c.args = args
                    kws = []
                    for k in c.keywords:
                        d = p.lits.get(k.value.id) if k.arg is None and isinstance(k.value, ast.Name) else None
                        if isinstance(d, ast.Dict) and all(isinstance(kk, ast.Constant) and isinstance(kk.value, str) for kk in d.keys):
                            kws.extend(ast.keyword(arg=kk.value, value=clone_ast(vv)) for kk, vv in zip(d.keys, d.values))
                        else:
                            kws.append(k)
                    c.keywords = kws
        x = _Sub(p.env).visit(c0)
        for c in ast.walk(x):
            if isinstance(c, ast.Call) and getattr(c, "_orig", False):
                p.calls.append(c)
        if self.post is not None:
            x = self.post(x)
        return x

    def block(self, stmts, states: List[Path]) -> List[Path]:
        for s in stmts:
            nxt: List[Path] = []
            for p in states:
                if len(self.done) + len(states) + len(nxt) > self.max_paths:
                    self.truncated = True
                    return []
                nxt.extend(self.stmt(s, p))
            states = nxt
            if not states:
                break
        return states

    def stmt(self, s, p: Path) -> List[Path]:
        self._cur = s
        if isinstance(s, ast.Return):
            p.ret = self.sub(s.value, p) if s.value is not None else ast.Constant(None)
            p.end = s
            self.done.append(p)
            return []
        if isinstance(s, ast.Raise):
            p.ret = RAISE
            p.raised = ast.unparse(s.exc.func) if isinstance(s.exc, ast.Call) else (ast.unparse(s.exc) if s.exc is not None else "")
            p.end = s
            self.done.append(p)
            return []
        if isinstance(s, ast.If):
            t = self.sub(s.test, p)
            f = fold(t)
            if f is True:
                return self.block(s.body, [p])
            if f is False:
                return self.block(s.orelse, [p])
            a, b = p, p.fork()
            a.conds = a.conds + tuple(sorted(atoms(t, True)))
            b.conds = b.conds + tuple(sorted(atoms(t, False)))
            return self.block(s.body, [a]) + self.block(s.orelse, [b])
        if self.call_hook is not None and isinstance(s, (ast.Assign, ast.Expr, ast.Return)) and isinstance(s.value, ast.Call):
            looked = self._through_helper(s, p)
            if looked is not None:
                return looked
        if isinstance(s, ast.Assign):
            v = self.sub(s.value, p)
            for t in s.targets:
                self.assign(t, v, p)
                if isinstance(t, ast.Name):
                    al = self._alias_of(s.value, p)
                    if al is not None and t.id not in {n.id for n in ast.walk(al) if isinstance(n, ast.Name)}:
                        p.alias[t.id] = al
                    else:
                        p.alias.pop(t.id, None)
                    for k_ in [k_ for k_, a_ in p.alias.items() if k_ != t.id and any(isinstance(n, ast.Name) and n.id == t.id for n in ast.walk(a_))]:
                        p.alias.pop(k_, None)  # the name an alias refers to was re-bound
                    if isinstance(s.value, (ast.List, ast.Dict)) and len(s.targets) == 1:
                        p.lits[t.id] = clone_ast(v)
                    else:
                        p.lits.pop(t.id, None)
                elif isinstance(t, ast.Subscript) and isinstance(t.value, ast.Name) and isinstance(p.lits.get(t.value.id), ast.Dict):
                    d = p.lits[t.value.id]
                    k = self.sub(t.slice, p.fork())
                    if isinstance(k, ast.Constant):
                        for i, kk in enumerate(d.keys):
                            if isinstance(kk, ast.Constant) and kk.value == k.value:
                                d.values[i] = v
                                break
                        else:
                            d.keys.append(k)
                            d.values.append(v)
                    else:
                        p.lits.pop(t.value.id, None)
            return [p]
        if isinstance(s, ast.AnnAssign):
            if s.value is not None:
                self.assign(s.target, self.sub(s.value, p), p)
            return [p]
        if isinstance(s, ast.AugAssign):
            v = self.sub(s.value, p)
            if isinstance(s.target, ast.Name):
                cur = p.env.get(s.target.id, ast.Name(id=s.target.id, ctx=ast.Load()))
                p.env[s.target.id] = ast.BinOp(left=clone_ast(cur), op=clone_ast(s.op), right=v)
            else:
                tt = text(self.sub(_as_load(s.target), p))
                p.stores[tt] = ast.BinOp(left=self.sub(_as_load(s.target), p), op=clone_ast(s.op), right=v)
                p.named_stores[self.raw_key(s.target, p)] = p.stores[tt]
            return [p]
        if isinstance(s, ast.Expr):
            v = self.sub(s.value, p)
            # acc.append(x) / acc.extend([..]) / d.update(k=v) on a local bound to a display
            if isinstance(v, ast.Call) and isinstance(s.value, ast.Call) and isinstance(s.value.func, ast.Attribute) and isinstance(s.value.func.value, ast.Name):
                nm, meth = s.value.func.value.id, s.value.func.attr
                lit = p.lits.get(nm)
                if isinstance(lit, ast.List) and meth == "append" and len(v.args) == 1 and not v.keywords:
                    lit.elts.append(v.args[0])
                elif isinstance(lit, ast.List) and meth == "extend" and len(v.args) == 1 and isinstance(v.args[0], (ast.List, ast.Tuple)):
                    lit.elts.extend(v.args[0].elts)
                elif isinstance(lit, ast.Dict) and meth == "update" and not v.args and all(k.arg for k in v.keywords):
                    for k in v.keywords:
                        lit.keys.append(ast.Constant(k.arg))
                        lit.values.append(k.value)
                elif lit is not None and meth not in ("copy", "index", "count", "get", "keys", "values", "items"):
                    p.lits.pop(nm, None)
            # setattr(o, "name", v) is the store o.name = v
            if isinstance(v, ast.Call) and isinstance(v.func, ast.Name) and v.func.id == "setattr" and len(v.args) == 3 and isinstance(v.args[1], ast.Constant) and isinstance(v.args[1].value, str) and v.args[1].value.isidentifier():
                p.stores[text(ast.Attribute(value=v.args[0], attr=v.args[1].value, ctx=ast.Load()))] = v.args[2]
            return [p]
        if isinstance(s, ast.Assert):
            t = self.sub(s.test, p)
            f = fold(t)
            if f is False:
                p.ret = RAISE
                p.raised = "AssertionError"
                p.end = s
                self.done.append(p)
                return []
            if f is None:
                p.conds = p.conds + tuple(sorted(atoms(t, True)))
            return [p]
        if isinstance(s, ast.For):
            items = self._literal_items(self.sub(s.iter, p.fork()), s.target)
            if items is not None and len(items) <= 8:
                # a loop over a literal container is unrolled
                states = [p]
                broke: List[Path] = []
                for it in items:
                    nxt = []
                    for q in states:
                        self.assign(s.target, it, q)
                        n_done = len(self.done)
                        res = self.block(s.body, [q])
                        ended = [e for e in self.done[n_done:] if e.ret == CONTINUE]
                        left = [e for e in self.done[n_done:] if e.ret == BREAK]
                        self.done = self.done[:n_done] + [e for e in self.done[n_done:] if e.ret not in (CONTINUE, BREAK)]
                        for e in ended + left:
                            e.ret = None
                            e.end = None
                        nxt.extend(res + ended)
                        broke.extend(left)  # `break` leaves the loop and skips its else clause
                    states = nxt
                return (self.block(s.orelse, states) if s.orelse else states) + broke
        if isinstance(s, (ast.For, ast.While)):
            bound = set()
            for x in ast.walk(s):
                if isinstance(x, ast.Name) and isinstance(x.ctx, ast.Store):
                    bound.add(x.id)
            if isinstance(s, ast.For):
                self.sub(s.iter, p)
            for nme in bound:
                p.env[nme] = ast.Name(id=f"{nme}__L{s.lineno}", ctx=ast.Load())
            for x in ast.walk(s):
                if isinstance(x, ast.Name) and x.id in p.lits:
                    p.lits.pop(x.id, None)
            # record the calls of the body once (loop variable opaque); returns inside end the path there
            n_done = len(self.done)
            inner = self.block(s.body, [p.fork()])
            # paths of the body that ended in break/continue do not leave the function
            ended = [q for q in self.done[n_done:] if q.ret in (BREAK, CONTINUE)]
            self.done = self.done[:n_done] + [q for q in self.done[n_done:] if q.ret not in (BREAK, CONTINUE)]
            out = [p]
            qs = inner + ended
            base_keys = set(p.stores)
            for q in qs[:1]:
                p.calls = q.calls
                for k, v in q.env.items():
                    if k in bound or k not in p.env:
                        p.env[k] = ast.Name(id=f"{k}__L{s.lineno}", ctx=ast.Load())
            # stores of the body: kept when every path through the body performs them
            # with the same value, otherwise marked conditional
            for attr in ("stores", "named_stores"):
                mine = getattr(p, attr)
                base_k = set(mine) if attr == "named_stores" else base_keys
                allk = set()
                for q in qs:
                    allk |= set(getattr(q, attr)) - base_k
                for k in sorted(allk):
                    vals = [text(getattr(q, attr)[k]) if k in getattr(q, attr) else None for q in qs]
                    if all(v == vals[0] and v is not None for v in vals):
                        mine[k] = getattr(qs[0], attr)[k]
                    else:
                        mine[k] = ast.Name(id="__conditional__", ctx=ast.Load())
            return self.block(s.orelse, out)
        if isinstance(s, ast.With):
            for it in s.items:
                v = self.sub(it.context_expr, p)
                if it.optional_vars is not None:
                    self.assign(it.optional_vars, v, p)
            return self.block(s.body, [p])
        if isinstance(s, ast.Try):
            # handlers: the protected block may raise (taken here at its first statement, i.e. with
            # the state before the block); the handler's body then runs instead of the rest
            handled: List[Path] = []
            for h in s.handlers:
                q = p.fork()
                what = ast.unparse(s.body[0]).splitlines()[0][:60] if s.body else "..."
                exc = ast.unparse(h.type) if h.type is not None else "BaseException"
                q.conds = tuple(q.conds) + ((f"raises[{exc}]({what})", True),)
                if h.name:
                    q.env[h.name] = ast.Name(id=f"{h.name}__exc", ctx=ast.Load())
                handled += self.block(h.body, [q])
            out = self.block(s.body, [p])
            out = self.block(s.orelse, out) if s.orelse else out
            out = out + handled
            return self.block(s.finalbody, out) if s.finalbody else out
        if isinstance(s, (ast.FunctionDef, ast.AsyncFunctionDef, ast.ClassDef)):
            p.env[s.name] = ast.Name(id=f"{s.name}__def", ctx=ast.Load())
            return [p]
        if isinstance(s, (ast.Break, ast.Continue)):
            p.ret = BREAK if isinstance(s, ast.Break) else CONTINUE
            p.end = s
            self.done.append(p)
            return []
        return [p]  # pass, import, global

    def _through_helper(self, s, p: Path):
        """`x = helper(..)`, `helper(..)`, `return helper(..)` where the hook knows
        the helper's own paths: the caller's path forks along them"""
        probe = p.fork()
        v = self.sub(s.value, probe)
        if not isinstance(v, ast.Call):
            return None
        try:
            hps = self.call_hook(v)
        except RecursionError:  # pragma: no cover
            hps = None
        if not hps:
            return None
        out: List[Path] = []
        for hp in hps:
            q = p.fork()
            q.calls = list(probe.calls) + list(hp.calls)
            q.conds = q.conds + tuple(c for c in hp.conds if c not in q.conds)
            for k, val in hp.stores.items():
                q.stores[k] = val
            for k, val in hp.named_stores.items():
                q.named_stores[k] = val
            if hp.ret == RAISE:
                q.ret, q.raised, q.end = RAISE, hp.raised, s
                self.done.append(q)
                continue
            val = hp.ret if isinstance(hp.ret, ast.AST) else ast.Constant(None)
            if isinstance(s, ast.Return):
                q.ret, q.end = val, s
                self.done.append(q)
            elif isinstance(s, ast.Assign):
                for t in s.targets:
                    self.assign(t, clone_ast(val), q)
                out.append(q)
            else:
                out.append(q)
        return out

    def _literal_items(self, it, target):
        """elements of a literal list/tuple/dict (.items(), .keys(), .values()) or None"""
        if isinstance(it, (ast.List, ast.Tuple)):
            return list(it.elts)
        if isinstance(it, ast.Dict) and all(k is not None for k in it.keys):
            return list(it.keys)
        if isinstance(it, ast.Call) and isinstance(it.func, ast.Attribute) and isinstance(it.func.value, ast.Dict) and not it.args and all(k is not None for k in it.func.value.keys):
            d = it.func.value
            if it.func.attr == "items":
                return [ast.Tuple(elts=[k, v], ctx=ast.Load()) for k, v in zip(d.keys, d.values)]
            if it.func.attr == "keys":
                return list(d.keys)
            if it.func.attr == "values":
                return list(d.values)
        return None

    def assign(self, t, v, p: Path):
        if isinstance(t, ast.Name):
            if _empty_container(v):
                # an accumulator (`res = []`) is filled in place later: keep the name
                p.env.pop(t.id, None)
                return
            p.env[t.id] = v
            p.origin[t.id] = getattr(self, "_cur", None)
        elif isinstance(t, (ast.Tuple, ast.List)):
            if isinstance(v, (ast.Tuple, ast.List)) and len(v.elts) == len(t.elts):
                for e, x in zip(t.elts, v.elts):
                    self.assign(e, x, p)
            else:
                for i, e in enumerate(t.elts):
                    self.assign(e, ast.Subscript(value=clone_ast(v), slice=ast.Constant(i), ctx=ast.Load()), p)
        else:
            tt = text(self.sub(_as_load(t), p))
            p.stores[tt] = v
            rk = self.raw_key(t, p)
            p.named_stores[rk] = v
            p.origin[rk] = getattr(self, "_cur", None)

    def _alias_of(self, e, p: Path):
        """`b`, `b.attr`, `b.attr if <decided test> else b`: the same object as (an
        indexer / view of) the local b"""
        if isinstance(e, ast.IfExp):
            f_ = fold(self.sub(e.test, p.fork()))
            if f_ is True:
                return self._alias_of(e.body, p)
            if f_ is False:
                return self._alias_of(e.orelse, p)
            return None
        cur = e
        while isinstance(cur, ast.Attribute):
            cur = cur.value
        if isinstance(cur, ast.Name) and cur.id != "self" and isinstance(e, (ast.Name, ast.Attribute)):
            x = clone_ast(e)
            # follow an alias of an alias
            root = x
            while isinstance(root, ast.Attribute) and isinstance(root.value, ast.Attribute):
                root = root.value
            base = cur.id
            if base in p.alias:
                repl = clone_ast(p.alias[base])
                if isinstance(x, ast.Name):
                    return repl
                root2 = x
                while isinstance(root2.value, ast.Attribute):
                    root2 = root2.value
                root2.value = repl
            return x
        return None

    def raw_key(self, t, p: Path) -> str:
        """target text with indices substituted but the root variable kept (an
        alias of another local is replaced by that local)"""
        x = _as_load(t)
        if p.alias:
            holder = x
            parent = None
            while isinstance(holder, (ast.Subscript, ast.Attribute)):
                parent, holder = holder, holder.value
            if isinstance(holder, ast.Name) and holder.id in p.alias and parent is not None:
                parent.value = clone_ast(p.alias[holder.id])
        chain = []
        cur = x
        while isinstance(cur, (ast.Subscript, ast.Attribute)):
            chain.append(cur)
            cur = cur.value
        for n in chain:
            if isinstance(n, ast.Subscript):
                calls_before = len(p.calls)
                n.slice = self.sub(n.slice, p)
                del p.calls[calls_before:]
        return text(x)


def _empty_container(v) -> bool:
    if isinstance(v, (ast.List, ast.Set, ast.Tuple)) and not v.elts:
        return True
    if isinstance(v, ast.Dict) and not v.keys:
        return True
    if isinstance(v, ast.Call) and isinstance(v.func, ast.Name) and v.func.id in ("list", "dict", "set", "OrderedDict", "defaultdict") and not v.args and not v.keywords:
        return True
    return False


def _as_load(t: ast.AST) -> ast.AST:
    x = clone_ast(t)
    for n in ast.walk(x):
        if hasattr(n, "ctx"):
            n.ctx = ast.Load()
    return x
