"""E-DF: reaching definitions and def-use helpers over engine.cfg graphs."""

from __future__ import annotations

import ast
from typing import Dict, FrozenSet, List, Optional, Set, Tuple

from .cfg import CFG, Node, build_cfg, forward
from .util import assign_targets, names_in

# A definition is (name, node id).  Node id -1 = parameter / free variable.
Def = Tuple[str, int]

_MUTATORS = {
    "update", "append", "extend", "add", "insert", "setdefault", "pop", "remove", "clear", "sort", "fill",
    "shuffle", "popitem", "discard", "reverse", "resize", "put", "itemset", "partition", "setfield",
}


def defs_of_node(n: Node) -> Set[str]:
    """local names (re)bound at this node (plain rebinding only)."""
    a = n.ast
    out: Set[str] = set()
    if a is None:
        return out
    if n.kind == "stmt":
        if isinstance(a, (ast.Assign, ast.AnnAssign, ast.AugAssign)):
            for t in assign_targets(a):
                if isinstance(t, ast.Name):
                    out.add(t.id)
        elif isinstance(a, (ast.Import, ast.ImportFrom)):
            for al in a.names:
                out.add((al.asname or al.name).split(".")[0])
        elif isinstance(a, (ast.FunctionDef, ast.AsyncFunctionDef, ast.ClassDef)):
            out.add(a.name)
        elif isinstance(a, ast.Delete):
            for t in a.targets:
                if isinstance(t, ast.Name):
                    out.add(t.id)
    elif n.kind == "for":
        for t in assign_targets(a):
            if isinstance(t, ast.Name):
                out.add(t.id)
    elif n.kind == "with":
        for t in assign_targets(a):
            if isinstance(t, ast.Name):
                out.add(t.id)
    elif n.kind == "except":
        if getattr(a, "name", None):
            out.add(a.name)
    # walrus
    for sub in ast.walk(a) if n.kind in ("stmt", "test", "return") else []:
        if isinstance(sub, ast.NamedExpr) and isinstance(sub.target, ast.Name):
            out.add(sub.target.id)
    return out


def mutations_of_node(n: Node) -> Set[str]:
    """local names whose *object* is mutated in place at this node: element /
    attribute stores, augmented assignment, mutating method calls."""
    a = n.ast
    out: Set[str] = set()
    if a is None or n.kind not in ("stmt", "for", "test", "return"):
        return out
    if isinstance(a, (ast.Assign, ast.AnnAssign, ast.AugAssign)) or n.kind == "for":
        for t in assign_targets(a):
            b = t
            while isinstance(b, (ast.Subscript, ast.Attribute)):
                b = b.value
            if isinstance(b, ast.Name) and b is not t:
                out.add(b.id)
    if isinstance(a, ast.AugAssign) and isinstance(a.target, ast.Name):
        out.add(a.target.id)
    if isinstance(a, ast.Delete):
        for t in a.targets:
            b = t
            while isinstance(b, (ast.Subscript, ast.Attribute)):
                b = b.value
            if isinstance(b, ast.Name) and b is not t:
                out.add(b.id)
    body = a if n.kind != "for" else a.iter
    for c in ast.walk(body):
        if isinstance(c, ast.Call) and isinstance(c.func, ast.Attribute) and c.func.attr in _MUTATORS:
            b = c.func.value
            while isinstance(b, (ast.Subscript, ast.Attribute)):
                b = b.value
            if isinstance(b, ast.Name):
                out.add(b.id)
    return out


class ReachingDefs:
    def __init__(self, func: ast.AST, with_mutations: bool = True, extra_mut=None):
        """extra_mut: optional callable(Node) -> names mutated at that node beyond
        the syntactic model (e.g. arrays written by a callee, from effect summaries)"""
        self.func = func
        self.cfg = build_cfg(func)
        self.with_mutations = with_mutations
        params = set()
        if hasattr(func, "args"):
            a = func.args
            for x in a.posonlyargs + a.args + a.kwonlyargs:
                params.add(x.arg)
            if a.vararg:
                params.add(a.vararg.arg)
            if a.kwarg:
                params.add(a.kwarg.arg)
        self.params = params
        init = frozenset((p, -1) for p in params)

        def transfer(n: Node, state: FrozenSet[Def], label: str):
            if label == "exc" and n.kind in ("stmt", "for", "with"):
                return state
            d = defs_of_node(n)
            if d:
                state = frozenset(x for x in state if x[0] not in d) | frozenset((name, n.id) for name in d)
            if self.with_mutations:
                m = mutations_of_node(n)
                if extra_mut is not None:
                    m = m | set(extra_mut(n))
                m = m - d
                if m:
                    # a mutation is an additional (non-killing) definition
                    state = state | frozenset((name, n.id) for name in m)
            return state

        self.IN: Dict[int, FrozenSet[Def]] = forward(self.cfg, init, transfer, lambda a, b: a | b)
        self.node_by_id = {n.id: n for n in self.cfg.nodes}
        self._node_of_ast: Dict[int, Node] = {}
        for n in self.cfg.nodes:
            if n.ast is not None and n.id in self.IN:
                # several CFG nodes may share an ast (finally copies): keep the first
                self._node_of_ast.setdefault(id(n.ast), n)

    def node_of(self, a: ast.AST) -> Optional[Node]:
        """CFG node whose statement contains the ast node `a`."""
        cur = a
        while cur is not None:
            n = self._node_of_ast.get(id(cur))
            if n is not None:
                return n
            cur = getattr(cur, "_parent", None)
            if cur is self.func:
                break
        return None

    def nodes_of(self, a: ast.AST) -> List[Node]:
        cur = a
        while cur is not None:
            ns = [n for n in self.cfg.nodes if n.ast is cur and n.id in self.IN]
            if ns:
                return ns
            cur = getattr(cur, "_parent", None)
            if cur is self.func:
                break
        return []

    def reaching(self, name: str, at: Node) -> List[int]:
        """node ids of definitions of `name` reaching the entry of `at`
        (-1 = parameter)."""
        return sorted(d for (nm, d) in self.IN.get(at.id, frozenset()) if nm == name)

    def def_nodes(self, name: str, at: Node) -> List[Optional[Node]]:
        return [self.node_by_id.get(d) if d >= 0 else None for d in self.reaching(name, at)]

    def depends_on(self, expr: ast.AST, at: Node, roots: Set[str], self_attrs: Set[str] = frozenset(), _seen=None) -> bool:
        """Does the value of `expr`, evaluated at `at`, depend (through local
        definitions and in-place mutations) on a parameter/name in `roots` or on
        self.<attr> for attr in self_attrs?"""
        if _seen is None:
            _seen = set()
        for n in ast.walk(expr):
            if isinstance(n, ast.Attribute) and isinstance(n.value, ast.Name) and n.value.id == "self" and n.attr in self_attrs:
                return True
        for n in ast.walk(expr):
            if not isinstance(n, ast.Name) or not isinstance(n.ctx, ast.Load):
                continue
            for d in self.reaching(n.id, at):
                if d == -1:
                    if n.id in roots:
                        return True
                    continue
                if (n.id, d) in _seen:
                    continue
                _seen.add((n.id, d))
                dn = self.node_by_id[d]
                src = _value_exprs(dn, n.id)
                for e in src:
                    if self.depends_on(e, dn, roots, self_attrs, _seen):
                        return True
            if not self.reaching(n.id, at) and n.id in roots:
                return True
        return False


def _value_exprs(dn: Node, name: str) -> List[ast.AST]:
    """expressions whose value flows into `name` at definition node dn."""
    a = dn.ast
    out: List[ast.AST] = []
    if a is None:
        return out
    if dn.kind == "for":
        out.append(a.iter)
        return out
    if dn.kind == "with":
        for it in a.items:
            out.append(it.context_expr)
        return out
    if isinstance(a, (ast.Assign, ast.AnnAssign)):
        if a.value is not None:
            out.append(a.value)
        # element stores: D[k] = v  -> both k and v flow into D
        for t in assign_targets(a):
            if isinstance(t, ast.Subscript):
                out.append(t.slice)
    elif isinstance(a, ast.AugAssign):
        out.append(a.value)
        if isinstance(a.target, ast.Name):
            out.append(ast.Name(id=a.target.id, ctx=ast.Load()))
        else:
            out.append(a.target)
    elif isinstance(a, ast.Expr):
        out.append(a.value)
    else:
        for c in ast.iter_child_nodes(a):
            if isinstance(c, ast.expr):
                out.append(c)
    return out
