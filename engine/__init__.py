"""Static-analysis engine for the mlinsights property checkers.

Nothing in this package imports or runs code from /repo: every fact is derived
from `ast` trees (and, for *.pyx, Cython's parser used as a parser only).
"""
