"""E-CY: Cython sources through Cython's own parser (used as a parser only),
converted to Python `ast` so that the same CFG / affine / pairing engines
apply.  Type declarations, casts (`<int>x`), address-of (`&x`), `nogil`
blocks and memory-view types are erased: they do not change which index
expressions are read or which calls are made.

A construct the converter does not know becomes the call
`__cy_unsupported__('<NodeType>')`, so rules that meet it fail closed.
"""

from __future__ import annotations

import ast
from dataclasses import dataclass, field
from typing import Dict, List, Optional

from .src import AnalysisError

_parsed: Dict[tuple, "CyModule"] = {}


@dataclass
class CyClass:
    name: str
    base: Optional[str]
    line: int
    methods: Dict[str, ast.FunctionDef] = field(default_factory=dict)


@dataclass
class CyModule:
    relpath: str
    classes: List[CyClass] = field(default_factory=list)
    functions: Dict[str, ast.FunctionDef] = field(default_factory=dict)
    unsupported: List[str] = field(default_factory=list)

    def cls(self, name: str) -> CyClass:
        for c in self.classes:
            if c.name == name:
                return c
        raise AnalysisError(f"anchor vanished: cdef class {name} in {self.relpath}")

    def method(self, cname: str, mname: str) -> ast.FunctionDef:
        c = self.cls(cname)
        if mname not in c.methods:
            raise AnalysisError(f"anchor vanished: {cname}.{mname} in {self.relpath}")
        return c.methods[mname]


def parse(repo, relpath: str) -> CyModule:
    src = repo.read(relpath)
    key = (relpath, hash(src))
    if key in _parsed:
        return _parsed[key]
    try:
        from Cython.Compiler.TreeFragment import parse_from_strings
    except Exception as e:  # pragma: no cover
        raise ImportError(str(e))
    try:
        tree = parse_from_strings(relpath.split("/")[-1].rsplit(".", 1)[0], src)
    except Exception as e:
        raise AnalysisError(f"{relpath} does not parse as Cython: {type(e).__name__}: {str(e)[:200]}")
    mod = CyModule(relpath)
    conv = _Conv(mod)
    for st in _stats(tree.body):
        tn = type(st).__name__
        if tn == "CClassDefNode":
            base = None
            try:
                if st.bases is not None and st.bases.args:
                    b = st.bases.args[0]
                    base = getattr(b, "name", None) or getattr(b, "attribute", None)
            except Exception:
                base = None
            c = CyClass(st.class_name, base, st.pos[1])
            for m in _stats(st.body):
                f = conv.funcdef(m)
                if f is not None:
                    c.methods[f.name] = f
            mod.classes.append(c)
        else:
            f = conv.funcdef(st)
            if f is not None:
                mod.functions[f.name] = f
    known = getattr(repo, "known_functions", None)
    if known is not None:
        _look_through_helpers(mod, relpath, known)
    for c in mod.classes:
        for f in c.methods.values():
            _set_parents(f)
    for f in mod.functions.values():
        _set_parents(f)
    _parsed[key] = mod
    return mod


def _look_through_helpers(mod: "CyModule", relpath: str, known):
    """E-INL on the converted tree: calls of cdef/def helpers that are not in the
    frozen list of known functions are expanded in place (engine/inline.py)"""
    from .inline import expand_unknown_helpers, renumber

    body: List[ast.stmt] = list(mod.functions.values())
    cdefs = []
    for c in mod.classes:
        cd = ast.ClassDef(name=c.name, bases=[ast.Name(id=c.base, ctx=ast.Load())] if c.base else [], keywords=[], body=list(c.methods.values()) or [ast.Pass()], decorator_list=[])
        cd.lineno = c.line
        cdefs.append((c, cd))
        body.append(cd)
    synth = ast.Module(body=body, type_ignores=[])
    try:
        _, exp = expand_unknown_helpers(synth, relpath, known)
    except Exception:
        return
    if not exp:
        return
    renumber(synth)
    mod.functions = {f.name: f for f in synth.body if isinstance(f, ast.FunctionDef)}
    for c, cd in cdefs:
        c.methods = {f.name: f for f in cd.body if isinstance(f, ast.FunctionDef)}


def _set_parents(tree):
    for node in ast.walk(tree):
        for child in ast.iter_child_nodes(node):
            child._parent = node  # type: ignore[attr-defined]


def _stats(node):
    if node is None:
        return []
    if type(node).__name__ == "StatListNode":
        out = []
        for s in node.stats:
            out.extend(_stats(s))
        return out
    return [node]


class _Conv:
    def __init__(self, mod: CyModule):
        self.mod = mod

    def loc(self, py, cy):
        try:
            py.lineno = cy.pos[1]
            py.col_offset = cy.pos[2]
            py.end_lineno = cy.pos[1]
            py.end_col_offset = cy.pos[2] + 1
        except Exception:
            py.lineno, py.col_offset, py.end_lineno, py.end_col_offset = 0, 0, 0, 0
        return py

    def unsupported(self, n):
        name = type(n).__name__
        self.mod.unsupported.append(name)
        return self.loc(ast.Call(func=ast.Name(id="__cy_unsupported__", ctx=ast.Load()), args=[ast.Constant(name)], keywords=[]), n)

    # ----------------------------------------------------------- functions
    def funcdef(self, n) -> Optional[ast.FunctionDef]:
        tn = type(n).__name__
        if tn == "DefNode":
            name = n.name
            args = [self._argname(a) for a in n.args]
            body = n.body
        elif tn == "CFuncDefNode":
            d = n.declarator
            while hasattr(d, "base") and type(d).__name__ != "CFuncDeclaratorNode":
                d = d.base
            if type(d).__name__ != "CFuncDeclaratorNode":
                return None
            nd = d.base
            while hasattr(nd, "base") and not hasattr(nd, "name"):
                nd = nd.base
            name = getattr(nd, "name", None)
            if not name:
                return None
            args = [self._argname(a) for a in d.args]
            ctypes = [getattr(getattr(a, "base_type", None), "name", None) for a in d.args]
            body = n.body
        else:
            return None
        if tn == "DefNode":
            ctypes = [getattr(getattr(a, "base_type", None), "name", None) for a in n.args]
        # the declared C type of an argument is kept as its annotation (None for untyped ones)
        pa = ast.arguments(posonlyargs=[], args=[ast.arg(arg=a or f"_a{i}", annotation=(ast.Name(id=str(ctypes[i]), ctx=ast.Load()) if i < len(ctypes) and ctypes[i] else None)) for i, a in enumerate(args)], vararg=None, kwonlyargs=[], kw_defaults=[], kwarg=None, defaults=[])
        stmts = self.block(body) or [ast.Pass()]
        f = ast.FunctionDef(name=name, args=pa, body=stmts, decorator_list=[], returns=None, type_comment=None, type_params=[])
        self.loc(f, n)
        ast.fix_missing_locations(f)
        return f

    def _argname(self, a) -> Optional[str]:
        d = a.declarator
        while d is not None and not getattr(d, "name", None) and hasattr(d, "base"):
            d = d.base
        nm = getattr(d, "name", None)
        if nm:
            return nm
        # `self` style untyped args keep their name in base_type
        bt = getattr(a, "base_type", None)
        return getattr(bt, "name", None)

    # ---------------------------------------------------------- statements
    def block(self, node) -> List[ast.stmt]:
        out: List[ast.stmt] = []
        for s in _stats(node):
            r = self.stmt(s)
            if r is None:
                continue
            if isinstance(r, list):
                out.extend(r)
            else:
                out.append(r)
        return out

    def stmt(self, n):
        tn = type(n).__name__
        L = self.loc
        if tn == "SingleAssignmentNode":
            return L(ast.Assign(targets=[self.expr(n.lhs, store=True)], value=self.expr(n.rhs)), n)
        if tn == "CascadedAssignmentNode":
            return L(ast.Assign(targets=[self.expr(x, store=True) for x in n.lhs_list], value=self.expr(n.rhs)), n)
        if tn == "InPlaceAssignmentNode":
            op = {"+": ast.Add, "-": ast.Sub, "*": ast.Mult, "/": ast.Div, "//": ast.FloorDiv, "%": ast.Mod, "**": ast.Pow, "&": ast.BitAnd, "|": ast.BitOr}.get(n.operator, ast.Add)()
            return L(ast.AugAssign(target=self.expr(n.lhs, store=True), op=op, value=self.expr(n.rhs)), n)
        if tn == "ExprStatNode":
            e = self.expr(n.expr)
            return L(ast.Expr(value=e), n)
        if tn == "ReturnStatNode":
            return L(ast.Return(value=self.expr(n.value) if n.value is not None else None), n)
        if tn == "PassStatNode":
            return L(ast.Pass(), n)
        if tn == "RaiseStatNode":
            return L(ast.Raise(exc=self.expr(n.exc_type) if n.exc_type is not None else None, cause=None), n)
        if tn == "IfStatNode":
            res = None
            cur = None
            for cl in n.if_clauses:
                node = L(ast.If(test=self.expr(cl.condition), body=self.block(cl.body) or [ast.Pass()], orelse=[]), cl)
                if res is None:
                    res = node
                else:
                    cur.orelse = [node]
                cur = node
            if n.else_clause is not None:
                cur.orelse = self.block(n.else_clause)
            return res
        if tn == "ForInStatNode":
            it = n.iterator
            seq = it.sequence if hasattr(it, "sequence") else it
            return L(ast.For(target=self.expr(n.target, store=True), iter=self.expr(seq), body=self.block(n.body) or [ast.Pass()], orelse=self.block(n.else_clause) if n.else_clause is not None else []), n)
        if tn == "WhileStatNode":
            return L(ast.While(test=self.expr(n.condition), body=self.block(n.body) or [ast.Pass()], orelse=[]), n)
        if tn == "CVarDefNode":
            out = []
            for d in n.declarators:
                dd = d
                while dd is not None and not getattr(dd, "name", None) and hasattr(dd, "base"):
                    dd = dd.base
                default = getattr(d, "default", None)
                if default is None:
                    default = getattr(dd, "default", None)
                if default is not None and getattr(dd, "name", None):
                    out.append(L(ast.Assign(targets=[ast.Name(id=dd.name, ctx=ast.Store())], value=self.expr(default)), n))
            return out
        if tn in ("GILStatNode",):
            return self.block(n.body)
        if tn in ("CImportStatNode", "FromCImportStatNode", "FromImportStatNode", "CTypeDefNode", "GILExitNode"):
            return None
        if tn == "StatListNode":
            return self.block(n)
        if tn in ("BreakStatNode",):
            return L(ast.Break(), n)
        if tn in ("ContinueStatNode",):
            return L(ast.Continue(), n)
        if tn == "AssertStatNode":
            return L(ast.Assert(test=self.expr(getattr(n, "condition", None) or getattr(n, "cond", None)), msg=None), n)
        if tn in ("DefNode", "CFuncDefNode"):
            return self.funcdef(n)
        return L(ast.Expr(value=self.unsupported(n)), n)

    # --------------------------------------------------------- expressions
    def expr(self, n, store: bool = False):
        if n is None:
            return ast.Constant(None)
        tn = type(n).__name__
        L = self.loc
        ctx = ast.Store() if store else ast.Load()
        if tn == "NameNode":
            return L(ast.Name(id=n.name, ctx=ctx), n)
        if tn == "AttributeNode":
            return L(ast.Attribute(value=self.expr(n.obj), attr=n.attribute, ctx=ctx), n)
        if tn == "IndexNode":
            return L(ast.Subscript(value=self.expr(n.base), slice=self.expr(n.index), ctx=ctx), n)
        if tn == "SliceIndexNode":
            sl = ast.Slice(lower=self.expr(n.start) if n.start is not None else None, upper=self.expr(n.stop) if n.stop is not None else None, step=None)
            return L(ast.Subscript(value=self.expr(n.base), slice=sl, ctx=ctx), n)
        if tn == "SliceNode":
            def part(x):
                return None if x is None or type(x).__name__ == "NoneNode" else self.expr(x)
            return ast.Slice(lower=part(n.start), upper=part(n.stop), step=part(n.step))
        if tn == "IntNode":
            try:
                return L(ast.Constant(int(str(n.value).rstrip("LlUu"), 0)), n)
            except ValueError:
                return L(ast.Constant(0), n)
        if tn == "FloatNode":
            try:
                return L(ast.Constant(float(n.value)), n)
            except ValueError:
                return L(ast.Constant(0.0), n)
        if tn == "BoolNode":
            return L(ast.Constant(bool(n.value)), n)
        if tn in ("NoneNode", "NullNode"):
            return L(ast.Constant(None), n)
        if tn in ("UnicodeNode", "StringNode", "BytesNode", "IdentifierStringNode"):
            return L(ast.Constant(str(n.value)), n)
        if tn == "JoinedStrNode":
            return L(ast.Constant("<fstring>"), n)
        if tn in ("TypecastNode",):
            return self.expr(n.operand, store)
        if tn == "AmpersandNode":
            return self.expr(n.operand, store)
        if tn in ("SizeofVarNode", "SizeofTypeNode"):
            return L(ast.Call(func=ast.Name(id="sizeof", ctx=ast.Load()), args=[], keywords=[]), n)
        binops = {"AddNode": ast.Add, "SubNode": ast.Sub, "MulNode": ast.Mult, "DivNode": ast.Div, "ModNode": ast.Mod, "PowNode": ast.Pow, "IntBinopNode": None}
        if tn in binops or (hasattr(n, "operator") and hasattr(n, "operand1") and tn.endswith("Node") and tn not in ("PrimaryCmpNode", "BoolBinopNode", "CascadedCmpNode")):
            opmap = {"+": ast.Add, "-": ast.Sub, "*": ast.Mult, "/": ast.Div, "//": ast.FloorDiv, "%": ast.Mod, "**": ast.Pow, "&": ast.BitAnd, "|": ast.BitOr, "^": ast.BitXor, "<<": ast.LShift, ">>": ast.RShift, "@": ast.MatMult}
            op = opmap.get(getattr(n, "operator", None))
            if op is not None:
                return L(ast.BinOp(left=self.expr(n.operand1), op=op(), right=self.expr(n.operand2)), n)
        if tn == "UnaryMinusNode":
            return L(ast.UnaryOp(op=ast.USub(), operand=self.expr(n.operand)), n)
        if tn == "UnaryPlusNode":
            return self.expr(n.operand)
        if tn == "NotNode":
            return L(ast.UnaryOp(op=ast.Not(), operand=self.expr(n.operand)), n)
        if tn == "PrimaryCmpNode":
            cmpmap = {"==": ast.Eq, "!=": ast.NotEq, "<": ast.Lt, "<=": ast.LtE, ">": ast.Gt, ">=": ast.GtE, "is": ast.Is, "is_not": ast.IsNot, "in": ast.In, "not_in": ast.NotIn}
            ops = [cmpmap.get(n.operator, ast.Eq)()]
            comps = [self.expr(n.operand2)]
            c = getattr(n, "cascade", None)
            while c is not None:
                ops.append(cmpmap.get(c.operator, ast.Eq)())
                comps.append(self.expr(c.operand2))
                c = getattr(c, "cascade", None)
            return L(ast.Compare(left=self.expr(n.operand1), ops=ops, comparators=comps), n)
        if tn == "BoolBinopNode":
            op = ast.And() if n.operator == "and" else ast.Or()
            return L(ast.BoolOp(op=op, values=[self.expr(n.operand1), self.expr(n.operand2)]), n)
        if tn == "CondExprNode":
            return L(ast.IfExp(test=self.expr(n.test if hasattr(n, "test") else n.condition), body=self.expr(n.true_val), orelse=self.expr(n.false_val)), n)
        if tn == "SimpleCallNode":
            return L(ast.Call(func=self.expr(n.function), args=[self.expr(a) for a in n.args], keywords=[]), n)
        if tn == "GeneralCallNode":
            args = []
            pa = n.positional_args
            if type(pa).__name__ == "TupleNode":
                args = [self.expr(a) for a in pa.args]
            kws = []
            ka = n.keyword_args
            if ka is not None and type(ka).__name__ == "DictNode":
                for it in ka.key_value_pairs:
                    kws.append(ast.keyword(arg=str(it.key.value), value=self.expr(it.value)))
            return L(ast.Call(func=self.expr(n.function), args=args, keywords=kws), n)
        if tn == "TupleNode":
            return L(ast.Tuple(elts=[self.expr(a, store) for a in n.args], ctx=ctx), n)
        if tn == "ListNode":
            return L(ast.List(elts=[self.expr(a, store) for a in n.args], ctx=ctx), n)
        if tn == "DictNode":
            return L(ast.Dict(keys=[self.expr(i.key) for i in n.key_value_pairs], values=[self.expr(i.value) for i in n.key_value_pairs]), n)
        if tn == "ImportNode":
            return L(ast.Constant("<import>"), n)
        if tn == "FormattedValueNode":
            return L(ast.Constant("<fmt>"), n)
        return self.unsupported(n)
