"""E-EXP: symbolic expansion of expressions.

`Expander.expr(e, fi, at)` returns a copy of expression `e` (evaluated at
statement `at` of function `fi`) in which

* a local name with a UNIQUE reaching definition `name = E` is replaced by the
  expansion of E (in-place mutations count as definitions, so a mutated local
  is never expanded through),
* tuple unpackings are followed by position (`a, b = E1, E2`; `q, r = divmod(x, y)`
  becomes `x // y`, `x % y`),
* a loop variable becomes the pseudo term `__it__(<expanded iterable>, <pos>, <k>)`
  (k = ordinal of the loop among loops over the same iterable), so renaming it
  does not matter,
* a call to a *simple* repository helper (straight-line body, possibly with
  guard clauses that return early, ending in one `return`) is replaced by its
  returned expression with parameters bound to the expanded arguments,
* `getattr(o, "lit")` becomes `o.lit`.

Comparing `norm.dump(expanded)` of two sites therefore ignores renames,
introduced/inlined temporaries and extracted/inlined helpers.  Anything the
expander cannot follow is left as it is (so an unexpected shape makes two sites
*differ*, never agree).
"""

from __future__ import annotations

import ast
from engine.util import clone_ast
import copy
from typing import Dict, List, Optional, Tuple

from .src import FunctionInfo, own_nodes, src_of
from .dataflow import ReachingDefs
from . import norm


class Expander:
    def __init__(self, repo, resolve_call, max_depth: int = 8, call_writes=None):
        self.repo = repo
        self.resolve_call = resolve_call
        self.max_depth = max_depth
        self._rd: Dict[str, ReachingDefs] = {}
        self._loops: Dict[str, List[ast.AST]] = {}
        self._carried_cache: Dict[tuple, bool] = {}
        # optional normalisation applied to every expanded tree before it is
        # printed/compared (e.g. `~(a < b)` -> `b <= a`)
        self.post = None
        # call_writes(fi, call) -> local names whose object the call may write
        # (interprocedural effect summaries); they count as mutations
        self.call_writes = call_writes
        # False: substitute a definition even where a name it reads has been
        # rebound since (the caller then reasons about the value *at the
        # definition*, e.g. a quantity computed once from shapes)
        self.check_stability = True
        # False: a name bound to the result of a random draw is never replaced by the
        # drawing expression (two textually equal draws are two different values)
        self.expand_draws = True

    def rd(self, fi: FunctionInfo) -> ReachingDefs:
        r = self._rd.get(fi.qualname)
        if r is None:
            extra = None
            if self.call_writes is not None:
                cw = self.call_writes

                def extra(n, fi=fi):
                    out = set()
                    a = n.ast
                    if a is None or n.kind not in ("stmt", "test", "return", "for"):
                        return out
                    body = a if n.kind != "for" else a.iter
                    for c in ast.walk(body):
                        if isinstance(c, ast.Call):
                            out |= set(cw(fi, c))
                    return out

            r = self._rd[fi.qualname] = ReachingDefs(fi.node, extra_mut=extra)
        return r

    # ------------------------------------------------------------------ API
    def expr(self, e: ast.AST, fi: FunctionInfo, at: ast.AST, bindings: Optional[Dict[str, ast.AST]] = None, depth: int = 0) -> ast.AST:
        return self._x(e, fi, at, bindings or {}, depth, set())

    def norm_expr(self, e: ast.AST, fi: FunctionInfo, at: ast.AST) -> ast.AST:
        x = self.expr(e, fi, at)
        if self.post is not None:
            x = self.post(x)
        return x

    def text(self, e: ast.AST, fi: FunctionInfo, at: ast.AST) -> str:
        x = self.norm_expr(e, fi, at)
        try:
            return ast.unparse(norm.canon(x, rename=False))
        except Exception:
            return ast.dump(x)

    def dump(self, e: ast.AST, fi: FunctionInfo, at: ast.AST) -> str:
        return norm.dump(self.norm_expr(e, fi, at), rename=False)

    # ------------------------------------------------------------- internals
    def _x(self, e, fi, at, bindings, depth, seen):
        if e is None:
            return None
        if depth > self.max_depth:
            return clone_ast(e)
        if isinstance(e, ast.Name) and isinstance(e.ctx, ast.Load):
            return self._name(e, fi, at, bindings, depth, seen)
        if isinstance(e, ast.Call):
            return self._call(e, fi, at, bindings, depth, seen)
        if isinstance(e, (ast.Lambda, ast.ListComp, ast.SetComp, ast.DictComp, ast.GeneratorExp)):
            # do not expand comprehension-bound names; expand free names only
            bound = set()
            for g in getattr(e, "generators", []):
                for n in ast.walk(g.target):
                    if isinstance(n, ast.Name):
                        bound.add(n.id)
            if isinstance(e, ast.Lambda):
                bound |= {a.arg for a in e.args.args}
            return self._generic(e, fi, at, bindings, depth, seen, skip=bound)
        return self._generic(e, fi, at, bindings, depth, seen)

    def _generic(self, e, fi, at, bindings, depth, seen, skip=frozenset()):
        new = copy.copy(e)
        for field, val in ast.iter_fields(e):
            if isinstance(val, ast.AST):
                if isinstance(val, ast.Name) and val.id in skip:
                    setattr(new, field, clone_ast(val))
                elif isinstance(val, ast.expr) or isinstance(val, (ast.comprehension, ast.keyword, ast.Slice, ast.arguments)):
                    setattr(new, field, self._sub(val, fi, at, bindings, depth, seen, skip))
                else:
                    setattr(new, field, clone_ast(val))
            elif isinstance(val, list):
                out = []
                for v in val:
                    if isinstance(v, ast.AST):
                        out.append(self._sub(v, fi, at, bindings, depth, seen, skip))
                    else:
                        out.append(v)
                setattr(new, field, out)
        return new

    def _sub(self, v, fi, at, bindings, depth, seen, skip):
        if isinstance(v, ast.Name) and v.id in skip:
            return clone_ast(v)
        if isinstance(v, ast.expr):
            if skip:
                # names bound by the comprehension/lambda stay; others expand
                if isinstance(v, ast.Name):
                    return self._x(v, fi, at, bindings, depth, seen)
                return self._generic(v, fi, at, bindings, depth, seen, skip) if not isinstance(v, (ast.Call,)) else self._call(v, fi, at, bindings, depth, seen, skip)
            return self._x(v, fi, at, bindings, depth, seen)
        if isinstance(v, (ast.comprehension, ast.keyword, ast.Slice)):
            return self._generic(v, fi, at, bindings, depth, seen, skip)
        return clone_ast(v)

    # names ------------------------------------------------------------------
    def _name(self, e: ast.Name, fi, at, bindings, depth, seen):
        rd = self.rd(fi)
        node = rd.node_of(at)
        if node is None:
            return clone_ast(e)
        defs = rd.reaching(e.id, node)
        if defs == [-1] or (not defs and e.id in bindings):
            if e.id in bindings:
                return clone_ast(bindings[e.id])
            return self._leaf(e, bindings, bool(defs))
        if len(defs) > 1 and -1 in defs and all(d == -1 or self._self_coercion(rd.node_by_id.get(d), e.id) for d in defs):
            # a parameter that is only ever replaced by a coercion of itself
            # (`if isinstance(X, DataFrame): X = X.values`): the same data
            if e.id in bindings:
                return clone_ast(bindings[e.id])
            return self._leaf(e, bindings, True)
        if len(defs) != 1 or defs[0] < 0:
            return self._leaf(e, bindings, bool(defs))
        key = (fi.qualname, e.id, defs[0])
        if key in seen:
            return self._leaf(e, bindings, True)
        seen = seen | {key}
        dn = rd.node_by_id[defs[0]]
        a = dn.ast
        if dn.kind == "stmt":
            r = self._name_def(e, a, dn, fi, bindings, depth, seen)
            if r is not None and not self.expand_draws and self._has_draw(r):
                return self._leaf(e, bindings, True)
            # the substituted expression is written in terms of the names left
            # unexpanded at the definition; if one of them has been reassigned or
            # mutated between the definition and this use, it would denote
            # another value here: keep the name
            if r is not None and not self._stable(rd, dn, node, r, e.id, fi, bindings, depth, seen):
                return self._leaf(e, bindings, True)
            return r if r is not None else self._leaf(e, bindings, True)
        if dn.kind == "for":
            return self._loopvar(e.id, a, fi, bindings, depth, seen)
        return self._leaf(e, bindings, True)

    def _leaf(self, e: ast.Name, bindings, local: bool):
        """a name left unexpanded; inside an inlined callee a *local* one is
        tagged, so that the inlining can be abandoned (the caller has no such
        variable)"""
        if local and bindings.get("__callee__") is not None:
            return ast.Name(id=f"{e.id}@{bindings['__callee__']}", ctx=ast.Load())
        return clone_ast(e)

    _COERCE_ATTR = {"values", "A"}
    _COERCE_CALL = {"asarray", "array", "ascontiguousarray", "check_array", "as_float_array", "asanyarray"}
    _COERCE_METH = {"astype", "to_numpy", "copy", "toarray"}

    def _self_coercion(self, dn, name) -> bool:
        a = dn.ast if dn is not None else None
        if dn is None or dn.kind != "stmt" or not isinstance(a, ast.Assign) or len(a.targets) != 1:
            return False
        if not (isinstance(a.targets[0], ast.Name) and a.targets[0].id == name):
            return False
        v = a.value
        if isinstance(v, ast.Attribute) and isinstance(v.value, ast.Name) and v.value.id == name and v.attr in self._COERCE_ATTR:
            return True
        if isinstance(v, ast.Call):
            f = v.func
            fn = f.attr if isinstance(f, ast.Attribute) else (f.id if isinstance(f, ast.Name) else "")
            if fn in self._COERCE_CALL and v.args and isinstance(v.args[0], ast.Name) and v.args[0].id == name:
                return True
            if isinstance(f, ast.Attribute) and fn in self._COERCE_METH and isinstance(f.value, ast.Name) and f.value.id == name:
                return True
        return False

    def _name_def(self, e, a, dn, fi, bindings, depth, seen):
        if isinstance(a, ast.AnnAssign) and a.value is not None and isinstance(a.target, ast.Name):
            return self._x(a.value, fi, a, bindings, depth + 1, seen)
        if isinstance(a, ast.Assign):
            for t in a.targets:
                if isinstance(t, ast.Name) and t.id == e.id:
                    return self._x(a.value, fi, a, bindings, depth + 1, seen)
                if isinstance(t, (ast.Tuple, ast.List)):
                    pos = [i for i, x in enumerate(t.elts) if isinstance(x, ast.Name) and x.id == e.id]
                    if len(pos) == 1:
                        v = self._tuple_elem(a.value, pos[0], len(t.elts), fi, a, bindings, depth + 1, seen)
                        if v is not None:
                            return v
        if isinstance(a, ast.AugAssign) and isinstance(a.target, ast.Name) and a.target.id == e.id:
            prev = self._x(ast.Name(id=e.id, ctx=ast.Load()), fi, a, bindings, depth + 1, seen)
            return ast.BinOp(left=prev, op=clone_ast(a.op), right=self._x(a.value, fi, a, bindings, depth + 1, seen))
        return None

    def draws_are_values(self):
        """context: names bound to random draws keep their identity"""
        ex = self

        class _D:
            def __enter__(self_):
                self_.old = ex.expand_draws
                ex.expand_draws = False

            def __exit__(self_, *a):
                ex.expand_draws = self_.old

        return _D()

    _DRAWS = {"shuffle", "permutation", "randint", "rand", "randn", "random", "random_sample", "choice", "normal", "uniform", "integers", "standard_normal", "binomial", "poisson", "exponential", "sample"}

    def _has_draw(self, x: ast.AST) -> bool:
        for n in ast.walk(x):
            if isinstance(n, ast.Call):
                f = n.func
                nm = f.attr if isinstance(f, ast.Attribute) else (f.id if isinstance(f, ast.Name) else "")
                if nm in self._DRAWS:
                    return True
        return False

    def lenient(self):
        ex = self

        class _L:
            def __enter__(self_):
                self_.old = ex.check_stability
                ex.check_stability = False

            def __exit__(self_, *a):
                ex.check_stability = self_.old

        return _L()

    def _stable(self, rd, dn, use, xv, name, fi=None, bindings=None, depth=0, seen=frozenset()) -> bool:
        if not self.check_stability:
            return True
        """may `xv` (the expansion, at its definition `dn`, of the value bound to
        `name`) be substituted at `use`?  Every name left in it must denote the
        same value there: same reaching definitions, except attribute stores
        `v.attr = ...` on an object of which the expression only reads other
        attributes.  (Calls are assumed to be functions of their arguments.)"""
        reads = {}

        def walk(n, parent):
            if isinstance(n, ast.Name) and isinstance(n.ctx, ast.Load):
                attr = parent.attr if isinstance(parent, ast.Attribute) and parent.value is n else None
                reads.setdefault(n.id, set()).add(attr)
            for c in ast.iter_child_nodes(n):
                walk(c, n)

        walk(xv, None)
        for v, attrs in reads.items():
            d1, d2 = set(rd.reaching(v, dn)), set(rd.reaching(v, use))
            if v == name:
                continue
            # inside a loop the same statement can reach both sites and still change the
            # value BETWEEN them (hoisted `c = a[i]` followed, later in the loop, by a write
            # of a[i]): a definition lying on a path definition -> use that does not
            # re-execute the definition counts as new
            carried = set()
            for d in d1 & d2:
                if d < 0 or d == dn.id:
                    continue
                m = rd.node_by_id.get(d)
                if m is None:
                    continue
                key = (id(rd), dn.id, use.id, d)
                hit = self._carried_cache.get(key)
                if hit is None:
                    hit = self._between(rd, dn, m, use)
                    self._carried_cache[key] = hit
                if hit:
                    carried.add(d)
            if d1 == d2 and not carried:
                continue
            # definitions that reach the use but not the definition site; the ones
            # that no longer reach were overwritten by these (or lie on other paths)
            for d in (d2 - d1) | carried:
                node = rd.node_by_id.get(d)
                st = node.ast if node is not None else None
                if not isinstance(st, (ast.Assign, ast.AugAssign, ast.AnnAssign)) or node.kind != "stmt":
                    return False
                if self._rebinds_same(node, st, v, fi, bindings, depth, seen):
                    continue
                if None in attrs:
                    return False
                tgts = st.targets if isinstance(st, ast.Assign) else [st.target]
                flat = []
                for t in tgts:
                    flat += list(t.elts) if isinstance(t, (ast.Tuple, ast.List)) else [t]
                for t in flat:
                    for x in ast.walk(t):
                        if isinstance(x, ast.Name) and x.id == v:
                            if not (isinstance(t, ast.Attribute) and t.value is x and t.attr not in attrs):
                                return False
                val2 = getattr(st, "value", None)
                if val2 is not None and any(isinstance(x, ast.Name) and x.id == v and not isinstance(getattr(x, "_parent", None), ast.Attribute) for x in ast.walk(val2)):
                    return False
        return True

    def _between(self, rd, dn, m, use) -> bool:
        """is there a path dn -> m -> use that never passes dn again?"""
        from .cfg import paths_avoiding

        cfg = rd.cfg
        if m.id == use.id:
            # the use itself re-defines the name (an exchange `a[i], a[j] = c2, c1`): a later
            # execution of the same statement that does not go through dn again sees the change
            first = paths_avoiding(cfg, dn, {use.id}, {dn.id}, follow=lambda a, lab, b: lab != "exc")
            again = paths_avoiding(cfg, use, {use.id}, {dn.id}, follow=lambda a, lab, b: lab != "exc")
            return first is not None and again is not None
        first = paths_avoiding(cfg, dn, {m.id}, {dn.id}, follow=lambda a, lab, b: lab != "exc")
        if first is None:
            return False
        second = paths_avoiding(cfg, m, {use.id}, {dn.id}, follow=lambda a, lab, b: lab != "exc")
        return second is not None

    def _rebinds_same(self, node, st, v, fi, bindings, depth, seen) -> bool:
        """`v = <coercion of v>` or an assignment whose expansion is v itself
        (e.g. a helper that returns its argument, possibly coerced)"""
        if self._self_coercion(node, v):
            return True
        if fi is None or depth > self.max_depth or not isinstance(st, ast.Assign):
            return False
        key = ("same", fi.qualname, v, node.id)
        if key in seen:
            return False
        try:
            r = self._name_def(ast.Name(id=v, ctx=ast.Load()), st, node, fi, bindings or {}, depth + 1, seen | {key})
        except RecursionError:
            return False
        return isinstance(r, ast.Name) and r.id == v

    def _tuple_elem(self, value, pos, n, fi, at, bindings, depth, seen):
        if isinstance(value, (ast.Tuple, ast.List)) and len(value.elts) == n:
            return self._x(value.elts[pos], fi, at, bindings, depth, seen)
        if isinstance(value, ast.Call):
            if isinstance(value.func, ast.Name) and value.func.id == "divmod" and len(value.args) == 2 and n == 2:
                a = self._x(value.args[0], fi, at, bindings, depth, seen)
                b = self._x(value.args[1], fi, at, bindings, depth, seen)
                return ast.BinOp(left=a, op=ast.FloorDiv() if pos == 0 else ast.Mod(), right=b)
            r = self._inline(value, fi, at, bindings, depth, seen)
            if isinstance(r, (ast.Tuple, ast.List)) and len(r.elts) == n:
                return r.elts[pos]
            # not inlinable: keep a positional projection of the (expanded) call
            call = self._call(value, fi, at, bindings, depth, seen, no_inline=True)
            return ast.Subscript(value=call, slice=ast.Constant(pos), ctx=ast.Load())
        if isinstance(value, (ast.Subscript, ast.Name, ast.Attribute)):
            # `a, b = seq[0]`  ->  a is seq[0][0] (unpacking a sequence)
            base = self._x(value, fi, at, bindings, depth, seen)
            if isinstance(base, (ast.Tuple, ast.List)) and len(base.elts) == n:
                return base.elts[pos]
            return ast.Subscript(value=base, slice=ast.Constant(pos), ctx=ast.Load())
        return None

    def _loopvar(self, name, loop: ast.For, fi, bindings, depth, seen):
        it = loop.iter
        path = _target_path(loop.target, name)
        base = it
        pos: object = path
        rest: Tuple[int, ...] = ()
        if isinstance(it, ast.Call) and isinstance(it.func, ast.Name) and it.func.id == "enumerate" and it.args and path:
            if path[0] == 0:
                base, pos = it.args[0], ("idx",)
            else:
                base, pos, rest = it.args[0], ("elem",), tuple(path[1:])
        elif isinstance(it, ast.Call) and isinstance(it.func, ast.Name) and it.func.id == "zip" and path and path[0] < len(it.args):
            base, pos, rest = it.args[path[0]], ("elem",), tuple(path[1:])
        elif isinstance(it, ast.Call) and isinstance(it.func, ast.Name) and it.func.id == "range":
            pos = ("idx",)
            # range(len(S)), range(0, len(S)), range(S.shape[0]): positions of S,
            # the same values as the index of enumerate(S)
            stop = None
            if len(it.args) == 1:
                stop = it.args[0]
            elif len(it.args) == 2 and isinstance(it.args[0], ast.Constant) and it.args[0].value == 0:
                stop = it.args[1]
            if stop is not None:
                sx = self._x(stop, fi, loop, bindings, depth + 1, seen)
                if isinstance(sx, ast.Call) and isinstance(sx.func, ast.Name) and sx.func.id == "len" and len(sx.args) == 1:
                    base = sx.args[0]
                elif isinstance(sx, ast.Subscript) and isinstance(sx.value, ast.Attribute) and sx.value.attr == "shape" and isinstance(sx.slice, ast.Constant) and sx.slice.value == 0:
                    base = sx.value.value
                if base is not it:
                    k = self._loop_ordinal(fi, loop, base)
                    return ast.Call(func=ast.Name(id="__it__", ctx=ast.Load()), args=[clone_ast(base), ast.Constant(str(pos)), ast.Constant(k)], keywords=[])
        else:
            pos, rest = ("elem",), tuple(path)
        xb = self._x(base, fi, loop, bindings, depth + 1, seen)
        # the i-th element of `[f(x) for x in S]` is f(the i-th element of S); its
        # positions are the positions of S
        fmap = []
        guard_ = 0
        while guard_ < 4:
            guard_ += 1
            inner = xb.args[0] if isinstance(xb, ast.Call) and isinstance(xb.func, ast.Name) and xb.func.id in ("list", "tuple") and len(xb.args) == 1 and not xb.keywords else xb
            if isinstance(inner, (ast.ListComp, ast.GeneratorExp)) and len(inner.generators) == 1 and not inner.generators[0].ifs and not inner.generators[0].is_async:
                fmap.append(inner)
                xb = inner.generators[0].iter
                continue
            break
        k = self._loop_ordinal(fi, loop, xb)
        if fmap:
            term = ast.Call(func=ast.Name(id="__it__", ctx=ast.Load()), args=[xb, ast.Constant(str(pos)), ast.Constant(k)], keywords=[])
            if pos == ("elem",):
                for comp in reversed(fmap):
                    m_: Dict[str, ast.AST] = {}
                    _bind_comp_target(comp.generators[0].target, term, m_)
                    term = _SubstNames(m_).visit(clone_ast(comp.elt))
            for i_ in rest:
                term = ast.Subscript(value=term, slice=ast.Constant(i_), ctx=ast.Load())
            return term
        # components of an unpacked element are subscripts of the element: the same
        # term as `e[1]` after `for e in ...`
        term = ast.Call(func=ast.Name(id="__it__", ctx=ast.Load()), args=[xb, ast.Constant(str(pos)), ast.Constant(k)], keywords=[])
        for i_ in rest:
            term = ast.Subscript(value=term, slice=ast.Constant(i_), ctx=ast.Load())
        return term

    def _loop_ordinal(self, fi, loop, xb) -> int:
        loops = self._loops.get(fi.qualname)
        if loops is None:
            loops = sorted((l for l in own_nodes(fi.node) if isinstance(l, ast.For)), key=lambda l: (l.lineno, l.col_offset))
            self._loops[fi.qualname] = loops
        # ordinal among the loops that ENCLOSE this one and iterate over the same text
        txt = src_of(loop.iter)
        k = 0
        p = getattr(loop, "_parent", None)
        while p is not None and p is not fi.node:
            if isinstance(p, ast.For) and src_of(p.iter) == txt:
                k += 1
            p = getattr(p, "_parent", None)
        return k

    # calls ------------------------------------------------------------------
    def _call(self, e: ast.Call, fi, at, bindings, depth, seen, skip=frozenset(), no_inline=False):
        f = e.func
        # getattr(o, "lit") -> o.lit ; getattr(o, <name bound to a literal>) too
        if isinstance(f, ast.Name) and f.id == "getattr" and len(e.args) == 2:
            key = self._x(e.args[1], fi, at, bindings, depth, seen)
            if isinstance(key, ast.Constant) and isinstance(key.value, str) and key.value.isidentifier():
                return ast.Attribute(value=self._x(e.args[0], fi, at, bindings, depth, seen), attr=key.value, ctx=ast.Load())
        if not no_inline:
            r = self._inline(e, fi, at, bindings, depth, seen)
            if r is not None:
                return r
        return self._generic(e, fi, at, bindings, depth, seen, skip)

    def simple_return(self, callee: FunctionInfo) -> Optional[ast.Return]:
        """the single final `return` of a simple helper: straight-line body
        (assignments, expressions, asserts), optionally preceded by guard
        clauses `if c: return/raise ...`."""
        body = [s for s in callee.node.body if not (isinstance(s, ast.Expr) and isinstance(s.value, ast.Constant))]
        if not body or not isinstance(body[-1], ast.Return) or body[-1].value is None:
            return None
        for s in body[:-1]:
            if isinstance(s, (ast.Assign, ast.AnnAssign, ast.AugAssign, ast.Expr, ast.Assert, ast.Pass)):
                continue
            if isinstance(s, ast.If) and not s.orelse and all(isinstance(b, (ast.Return, ast.Raise, ast.Expr, ast.Assign)) for b in s.body) and isinstance(s.body[-1], (ast.Return, ast.Raise)):
                continue
            if isinstance(s, ast.If) and not s.orelse and all(isinstance(b, ast.Assign) and all(isinstance(t, ast.Name) for t in b.targets) for b in s.body):
                # conditional re-assignments: the names they bind have several
                # definitions and are therefore never expanded through
                continue
            return None
        return body[-1]

    def _inline(self, call: ast.Call, fi, at, bindings, depth, seen):
        if depth >= self.max_depth:
            return None
        callee = self.resolve_call(self.repo, fi, call)
        if callee is None or callee.name == "__init__" or callee is fi:
            return None
        if ("inline", callee.qualname) in seen:
            return None
        ret = self.simple_return(callee)
        if ret is None:
            return None
        # bind parameters
        params = list(callee.named_params)
        f = call.func
        args = list(call.args)
        bound_call = False
        if callee.cls is not None and callee.parent is None and params and params[0] in ("self", "cls"):
            is_static = any(isinstance(d, ast.Name) and d.id == "staticmethod" for d in callee.node.decorator_list)
            if not is_static:
                if isinstance(f, ast.Attribute) and isinstance(f.value, ast.Name) and f.value.id in ("self", "cls"):
                    bound_call = True
                elif isinstance(f, ast.Attribute) and isinstance(f.value, ast.Call):
                    bound_call = True
                elif isinstance(f, ast.Attribute):
                    d = self.repo.resolve_expr(fi.module, f.value)
                    bound_call = not (d is not None and self.repo.get_class(d) is not None)
        if callee.cls is not None and callee.parent is None and params and params[0] not in ("self", "cls") and isinstance(f, ast.Attribute):
            pass  # staticmethod called through self/Class: no implicit argument
        b: Dict[str, ast.AST] = {}
        ps = params[1:] if bound_call else params
        if bound_call and isinstance(f, ast.Attribute):
            b[params[0]] = self._x(f.value, fi, at, bindings, depth + 1, seen)
        for i, a in enumerate(args):
            if isinstance(a, ast.Starred):
                return None
            if i < len(ps):
                b[ps[i]] = self._x(a, fi, at, bindings, depth + 1, seen)
        for kw in call.keywords:
            if kw.arg is None:
                return None
            b[kw.arg] = self._x(kw.value, fi, at, bindings, depth + 1, seen)
        # defaults
        a_ = callee.node.args
        pos_params = [x.arg for x in a_.posonlyargs + a_.args]
        for name, dflt in zip(pos_params[len(pos_params) - len(a_.defaults):], a_.defaults):
            b.setdefault(name, clone_ast(dflt))
        for x, dflt in zip(a_.kwonlyargs, a_.kw_defaults):
            if dflt is not None:
                b.setdefault(x.arg, clone_ast(dflt))
        b["__callee__"] = callee.name
        r = self._x(ret.value, callee, ret, b, depth + 1, seen | {("inline", callee.qualname)})
        if any(isinstance(n, ast.Name) and n.id.endswith("@" + callee.name) for n in ast.walk(r)):
            return None  # the result depends on callee-local state the expander cannot follow
        return r


def _target_path(target, name) -> Tuple[int, ...]:
    if isinstance(target, ast.Name):
        return () if target.id == name else ()
    if isinstance(target, (ast.Tuple, ast.List)):
        for i, e in enumerate(target.elts):
            if isinstance(e, ast.Name) and e.id == name:
                return (i,)
            if isinstance(e, (ast.Tuple, ast.List)):
                sub = _target_path(e, name)
                if sub or any(isinstance(x, ast.Name) and x.id == name for x in ast.walk(e)):
                    return (i,) + sub
    return ()


def _bind_comp_target(t: ast.AST, v: ast.AST, m):
    if isinstance(t, ast.Name):
        m[t.id] = v
    elif isinstance(t, (ast.Tuple, ast.List)):
        for i, e in enumerate(t.elts):
            _bind_comp_target(e, ast.Subscript(value=v, slice=ast.Constant(i), ctx=ast.Load()), m)


class _SubstNames(ast.NodeTransformer):
    def __init__(self, m):
        self.m = m

    def visit_Name(self, n):
        if isinstance(n.ctx, ast.Load) and n.id in self.m:
            return clone_ast(self.m[n.id])
        return n
