"""E-EFF: flow-sensitive may-alias + write-effect analysis with
interprocedural summaries.

For every repository function we compute
  writes : parameter -> example write site   (the function may write, in place,
           into the object passed for that parameter)
  ret    : which parameters the return value may alias (per tuple position
           when the function returns tuple literals)
A local name may-aliases a parameter when it was produced from it by an
alias-preserving operation (see VIEW_* tables).  Everything not in the tables
is treated as producing a fresh object: the analysis reports only writes it
has positively derived.
"""

from __future__ import annotations

import ast
from dataclasses import dataclass, field
from typing import Dict, FrozenSet, List, Optional, Set, Tuple

from .src import Repo, FunctionInfo, own_nodes, dotted, AnalysisError
from .cfg import build_cfg, forward, Node
from .util import assign_targets, const_value, kwarg

# ---- the externals table (the only hand-written model; printed in evidence)
VIEW_ATTRS = {"values", "T", "real", "imag", "flat", "iloc", "loc", "at", "iat", "A", "A1", "base", "array"}
VIEW_METHODS = {"ravel", "reshape", "view", "squeeze", "transpose", "swapaxes", "__array__", "to_numpy", "get_values", "as_matrix", "diagonal"}
VIEW_FUNCS = {
    "numpy.asarray", "numpy.asanyarray", "numpy.ascontiguousarray", "numpy.asfortranarray", "numpy.atleast_1d",
    "numpy.atleast_2d", "numpy.squeeze", "numpy.ravel", "numpy.reshape", "numpy.transpose", "numpy.asmatrix",
    "numpy.require", "numpy.expand_dims", "numpy.swapaxes", "numpy.moveaxis", "numpy.broadcast_to",
}
# validation helpers: alias of their argument(s) unless copy=True literally
VALIDATORS_1 = {"check_array", "column_or_1d", "as_float_array", "_check_sample_weight", "_check_normalize_sample_weight", "check_consistent_length", "_check_test_data", "_ensure_no_complex_data"}
VALIDATORS_2 = {"check_X_y", "_check_X_y"}
INPLACE_METHODS = {"set_params", "sort", "fill", "partition", "put", "resize", "itemset", "setfield", "setflags", "byteswap"}
CONTAINER_MUTATORS = {"append", "extend", "insert", "remove", "clear", "update", "setdefault", "reverse", "popitem", "add", "discard"}
INPLACE_FUNCS_ARG0 = {"numpy.random.shuffle", "random.shuffle", "numpy.fill_diagonal", "numpy.put", "numpy.place", "numpy.copyto", "numpy.putmask", "numpy.put_along_axis", "numpy.add.at", "numpy.subtract.at", "numpy.multiply.at"}
RNG_INPLACE_METHODS = {"shuffle"}  # <generator>.shuffle(x) permutes x in place
# drawing from a generator consumes (mutates) its state
RNG_DRAW_METHODS = {
    "shuffle", "permutation", "randint", "rand", "randn", "random", "random_sample", "choice", "normal", "uniform", "integers",
    "standard_normal", "binomial", "poisson", "exponential", "bytes", "sample", "seed", "beta", "gamma",
}
RNG_IDENTITY_FUNCS = {"check_random_state"}  # returns its argument when it already is a generator
UFUNCS_OUT3 = {
    "multiply", "add", "subtract", "divide", "true_divide", "floor_divide", "minimum", "maximum", "power", "mod", "fmod",
    "logical_and", "logical_or", "logical_xor", "bitwise_and", "bitwise_or", "arctan2", "hypot", "fmax", "fmin", "copysign",
}
UFUNCS_OUT2 = {"abs", "absolute", "negative", "exp", "log", "log1p", "expm1", "sqrt", "square", "sign", "reciprocal", "floor", "ceil", "rint", "logical_not", "isnan", "sin", "cos", "tanh"}

EMPTY: FrozenSet[str] = frozenset()

# A name bound to a fresh display (`acc = [p]`, a comprehension) denotes a NEW
# container whose elements alias the roots: such roots are tagged.  Container-
# level writes (append/extend/sort, `acc[k] = v`) change the container only;
# reading an element (`acc[0]`, `for e in acc`) gives back the untagged roots.
ELEM = "elem:"


def tag(roots: FrozenSet[str]) -> FrozenSet[str]:
    return frozenset(r if r.startswith(ELEM) else ELEM + r for r in roots)


def untag(roots: FrozenSet[str]) -> FrozenSet[str]:
    return frozenset(r[len(ELEM):] if r.startswith(ELEM) else r for r in roots)


def direct(roots: FrozenSet[str]) -> FrozenSet[str]:
    """roots whose own object is denoted (not merely contained)"""
    return frozenset(r for r in roots if not r.startswith(ELEM))


@dataclass
class Summary:
    writes: Dict[str, str] = field(default_factory=dict)  # param or "free:name" -> description of the write site
    ret: object = None  # None | ("single", frozenset) | ("tuple", [frozenset,...])

    def key(self):
        r = self.ret
        if r is None:
            rk = None
        elif r[0] == "single":
            rk = ("single", tuple(sorted(r[1])))
        else:
            rk = ("tuple", tuple(tuple(sorted(x)) for x in r[1]))
        return (tuple(sorted(self.writes)), rk)


@dataclass
class WriteSite:
    roots: FrozenSet[str]
    node: ast.AST
    how: str
    via: str = ""  # callee chain description


class Effects:
    def __init__(self, repo: Repo, resolve_call):
        self.repo = repo
        self.resolve_call = resolve_call
        self.summaries: Dict[str, Summary] = {}
        self._int_like: Dict[str, Set[str]] = {}
        self._solved = False

    # ------------------------------------------------------------ fixpoint
    def solve(self, max_rounds: int = 12):
        funcs = list(self.repo.all_functions.values())
        for fi in funcs:
            self.summaries[fi.qualname] = Summary()
        for rnd in range(max_rounds):
            changed = False
            for fi in funcs:
                try:
                    s = self._summarise(fi)
                except AnalysisError:
                    raise
                if s.key() != self.summaries[fi.qualname].key():
                    # keep monotone: merge
                    old = self.summaries[fi.qualname]
                    for k, v in old.writes.items():
                        s.writes.setdefault(k, v)
                    self.summaries[fi.qualname] = s
                    changed = True
            if not changed:
                break
        self._solved = True

    # -------------------------------------------------------- per function
    def _int_names(self, fi: FunctionInfo) -> Set[str]:
        if fi.qualname in self._int_like:
            return self._int_like[fi.qualname]
        defs: Dict[str, List[ast.AST]] = {}
        NOTINT = object()
        for n in own_nodes(fi.node):
            if isinstance(n, ast.Assign):
                for t in n.targets:
                    if isinstance(t, ast.Name):
                        defs.setdefault(t.id, []).append(n.value)
                    elif isinstance(t, (ast.Tuple, ast.List)):
                        for e in t.elts:
                            if isinstance(e, ast.Name):
                                defs.setdefault(e.id, []).append(NOTINT)
            elif isinstance(n, ast.AugAssign) and isinstance(n.target, ast.Name):
                defs.setdefault(n.target.id, []).append(n.value)
            elif isinstance(n, (ast.For, ast.comprehension)):
                it, tg = n.iter, n.target
                if isinstance(it, ast.Call) and isinstance(it.func, ast.Name) and it.func.id == "range" and isinstance(tg, ast.Name):
                    defs.setdefault(tg.id, []).append(ast.Constant(0))
                elif isinstance(it, ast.Call) and isinstance(it.func, ast.Name) and it.func.id == "enumerate" and isinstance(tg, ast.Tuple) and tg.elts and isinstance(tg.elts[0], ast.Name):
                    defs.setdefault(tg.elts[0].id, []).append(ast.Constant(0))
                    for e in tg.elts[1:]:
                        for nm in ast.walk(e):
                            if isinstance(nm, ast.Name):
                                defs.setdefault(nm.id, []).append(NOTINT)
                else:
                    for nm in ast.walk(tg):
                        if isinstance(nm, ast.Name):
                            defs.setdefault(nm.id, []).append(NOTINT)
        params = set(fi.params)
        ints: Set[str] = set()

        def is_int(e) -> bool:
            if e is NOTINT:
                return False
            if isinstance(e, ast.Constant):
                return isinstance(e.value, int) and not isinstance(e.value, bool)
            if isinstance(e, ast.Name):
                return e.id in ints
            if isinstance(e, ast.UnaryOp):
                return is_int(e.operand)
            if isinstance(e, ast.BinOp) and isinstance(e.op, (ast.Add, ast.Sub, ast.Mult, ast.FloorDiv, ast.Mod)):
                return is_int(e.left) and is_int(e.right)
            if isinstance(e, ast.Call) and isinstance(e.func, ast.Name) and e.func.id in ("len", "int"):
                return True
            if isinstance(e, ast.Subscript) and isinstance(e.value, ast.Attribute) and e.value.attr == "shape":
                return True
            return False

        for _ in range(4):
            for name, vs in defs.items():
                if name in params:
                    continue
                if all(is_int(v) for v in vs):
                    ints.add(name)
        self._int_like[fi.qualname] = ints
        return ints

    def _basic_index(self, sl: ast.AST, ints: Set[str]) -> bool:
        if isinstance(sl, ast.Slice):
            return True
        if isinstance(sl, ast.Tuple):
            return all(self._basic_index(e, ints) for e in sl.elts)
        if isinstance(sl, ast.Constant):
            return sl.value is None or sl.value is Ellipsis or (isinstance(sl.value, int) and not isinstance(sl.value, bool))
        if isinstance(sl, ast.Attribute) and sl.attr == "newaxis":
            return True
        if isinstance(sl, ast.UnaryOp) and isinstance(sl.operand, ast.Constant):
            return True
        if isinstance(sl, ast.Name):
            return sl.id in ints
        if isinstance(sl, ast.BinOp):
            return self._basic_index(sl.left, ints) and self._basic_index(sl.right, ints)
        return False

    def alias(self, e: Optional[ast.AST], st: Dict[str, FrozenSet[str]], fi: FunctionInfo) -> FrozenSet[str]:
        if e is None:
            return EMPTY
        if isinstance(e, ast.Name):
            return st.get(e.id, EMPTY)
        if isinstance(e, ast.Attribute):
            if isinstance(e.value, ast.Name) and e.value.id in ("self", "cls"):
                # the object stored in self.<attr>: whatever was assigned to it in this
                # function (flow-sensitive) plus the attribute's own identity
                key = "self." + e.attr
                return st.get(key, EMPTY) | frozenset([key])
            if e.attr in VIEW_ATTRS:
                return self.alias(e.value, st, fi)
            return EMPTY
        if isinstance(e, ast.Subscript):
            base = self.alias(e.value, st, fi)
            if not base:
                return EMPTY
            if any(r.startswith(ELEM) for r in base):
                # an element of a fresh container; a slice of it is again a fresh container
                if isinstance(e.slice, ast.Slice):
                    return base
                return untag(base)
            # .loc/.iloc based selection and basic indexing give views
            if isinstance(e.value, ast.Attribute) and e.value.attr in ("iloc", "loc", "at", "iat"):
                return EMPTY  # pandas selection returns copies for our purposes (never written through in this package)
            if self._basic_index(e.slice, self._int_names(fi)):
                return base
            return EMPTY
        if isinstance(e, ast.Starred):
            return self.alias(e.value, st, fi)
        if isinstance(e, ast.IfExp):
            return self.alias(e.body, st, fi) | self.alias(e.orelse, st, fi)
        if isinstance(e, ast.BoolOp):
            out = EMPTY
            for v in e.values:
                out |= self.alias(v, st, fi)
            return out
        if isinstance(e, ast.NamedExpr):
            return self.alias(e.value, st, fi)
        if isinstance(e, (ast.Tuple, ast.List)):
            out = EMPTY
            for v in e.elts:
                out |= self.alias(v, st, fi)
            return out
        if isinstance(e, ast.Call):
            r = self.call_ret(e, st, fi)
            if r is None:
                return EMPTY
            if r[0] == "single":
                return r[1]
            out = EMPTY
            for x in r[1]:
                out |= x
            return out
        return EMPTY

    def _ext_name(self, call: ast.Call, fi: FunctionInfo) -> Optional[str]:
        d = self.repo.resolve_expr(fi.module, call.func)
        return d

    def _unwrap_delayed(self, call: ast.Call) -> ast.Call:
        """delayed(f)(args) -> f(args)"""
        f = call.func
        if isinstance(f, ast.Call) and isinstance(f.func, ast.Name) and f.func.id == "delayed" and len(f.args) == 1:
            new = ast.Call(func=f.args[0], args=call.args, keywords=call.keywords)
            ast.copy_location(new, call)
            new._parent = getattr(call, "_parent", None)  # type: ignore[attr-defined]
            return new
        return call

    def _bind(self, call: ast.Call, callee: FunctionInfo, fi: FunctionInfo) -> Dict[str, ast.AST]:
        """callee parameter -> argument expression"""
        params = list(callee.named_params)
        f = call.func
        bound = False
        if callee.cls is not None and callee.parent is None and params and params[0] in ("self", "cls"):
            is_static = any(isinstance(d, ast.Name) and d.id == "staticmethod" for d in callee.node.decorator_list)
            if not is_static:
                # explicit Class.m(self, ...) passes self positionally
                if isinstance(f, ast.Attribute) and isinstance(f.value, ast.Name) and f.value.id in ("self", "cls"):
                    bound = True
                elif isinstance(f, ast.Attribute) and isinstance(f.value, ast.Call):
                    bound = True  # super().m(...)
                elif isinstance(f, ast.Attribute):
                    d = self.repo.resolve_expr(fi.module, f.value)
                    if d is not None and self.repo.get_class(d) is not None:
                        bound = False
                    else:
                        bound = True
                elif isinstance(f, ast.Name):
                    bound = True  # constructor call Class(...)
        if callee.cls is not None and callee.parent is None and params and params[0] not in ("self", "cls"):
            pass
        if bound:
            params = params[1:]
        out: Dict[str, ast.AST] = {}
        for i, a in enumerate(call.args):
            if isinstance(a, ast.Starred):
                break
            if i < len(params):
                out[params[i]] = a
        for kw in call.keywords:
            if kw.arg is not None:
                out[kw.arg] = kw.value
        return out

    def call_ret(self, call: ast.Call, st, fi: FunctionInfo):
        call = self._unwrap_delayed(call)
        f = call.func
        # methods that return views of their receiver
        if isinstance(f, ast.Attribute):
            if f.attr in VIEW_METHODS:
                return ("single", self.alias(f.value, st, fi))
            if f.attr == "astype":
                c = kwarg(call, "copy")
                if c is not None and const_value(c) is False:
                    return ("single", self.alias(f.value, st, fi))
                return ("single", EMPTY)
            if f.attr in ("copy", "tolist", "flatten", "todense", "toarray", "sum", "mean"):
                return ("single", EMPTY)
        name = self._ext_name(call, fi)
        short = dotted(f).split(".")[-1] if dotted(f) else None
        if name in VIEW_FUNCS or (name == "numpy.array" and const_value(kwarg(call, "copy")) is False):
            return ("single", self.alias(call.args[0], st, fi) if call.args else EMPTY)
        if short in RNG_IDENTITY_FUNCS and call.args:
            return ("single", self.alias(call.args[0], st, fi))
        if short in VALIDATORS_1 or short in VALIDATORS_2:
            c = kwarg(call, "copy")
            if c is not None and const_value(c) is True:
                return ("single", EMPTY)
            if short in VALIDATORS_2:
                a0 = self.alias(call.args[0], st, fi) if len(call.args) > 0 else self.alias(kwarg(call, "X"), st, fi)
                a1 = self.alias(call.args[1], st, fi) if len(call.args) > 1 else self.alias(kwarg(call, "y"), st, fi)
                return ("tuple", [a0, a1])
            if short == "_check_sample_weight" or short == "_check_normalize_sample_weight":
                a0 = self.alias(call.args[0], st, fi) if call.args else self.alias(kwarg(call, "sample_weight"), st, fi)
                return ("single", a0)
            a0 = self.alias(call.args[0], st, fi) if call.args else EMPTY
            for kwn in ("array", "X", "y"):
                if not call.args and kwarg(call, kwn) is not None:
                    a0 = self.alias(kwarg(call, kwn), st, fi)
            return ("single", a0)
        callee = self.resolve_call(self.repo, fi, call)
        if callee is not None and callee.name != "__init__":
            s = self.summaries.get(callee.qualname)
            if s is None or s.ret is None:
                return ("single", EMPTY)
            binding = self._bind(call, callee, fi)

            def tr(roots):
                out = EMPTY
                for r0 in roots:
                    t_ = r0.startswith(ELEM)
                    r = r0[len(ELEM):] if t_ else r0
                    res = EMPTY
                    if r.startswith("free:"):
                        res = st.get(r[5:], EMPTY)
                    elif r in binding:
                        res = self.alias(binding[r], st, fi)
                    out |= tag(res) if t_ else res
                return out

            if s.ret[0] == "single":
                return ("single", tr(s.ret[1]))
            return ("tuple", [tr(x) for x in s.ret[1]])
        return None

    # ------------------------------------------------------------ dataflow
    def _states(self, fi: FunctionInfo):
        cfg = build_cfg(fi.node)
        params = [p for p in fi.params if p not in ("self", "cls")]
        init = {p: frozenset([p]) for p in params}
        # free variables of nested functions
        if fi.parent is not None:
            local = set(fi.params)
            for n in own_nodes(fi.node):
                if isinstance(n, ast.Name) and isinstance(n.ctx, ast.Store):
                    local.add(n.id)
            outer_names = set()
            p = fi.parent
            while p is not None:
                outer_names |= set(p.params)
                for n in own_nodes(p.node):
                    if isinstance(n, ast.Name) and isinstance(n.ctx, ast.Store):
                        outer_names.add(n.id)
                p = p.parent
            for n in own_nodes(fi.node):
                if isinstance(n, ast.Name) and isinstance(n.ctx, ast.Load) and n.id not in local and n.id in outer_names:
                    init.setdefault(n.id, frozenset(["free:" + n.id]))
        init_fs = frozenset((k, r) for k, v in init.items() for r in v)

        def to_dict(fs):
            d: Dict[str, FrozenSet[str]] = {}
            for k, r in fs:
                d[k] = d.get(k, EMPTY) | {r}
            return d

        def transfer(n: Node, fs, label):
            if label == "exc" and n.kind in ("stmt", "for", "with"):
                return fs
            a = n.ast
            if a is None or n.kind not in ("stmt", "for", "with"):
                return fs
            st = to_dict(fs)
            new: Dict[str, FrozenSet[str]] = {}

            def bind_target(t, roots, value=None, pos_sets=None):
                if isinstance(t, ast.Name):
                    new[t.id] = roots
                elif isinstance(t, ast.Attribute) and isinstance(t.value, ast.Name) and t.value.id in ("self", "cls"):
                    new["self." + t.attr] = frozenset(r for r in roots if r != "self." + t.attr)
                elif isinstance(t, (ast.Tuple, ast.List)):
                    for i, e in enumerate(t.elts):
                        if pos_sets is not None and i < len(pos_sets) and not any(isinstance(x, ast.Starred) for x in t.elts):
                            bind_target(e, pos_sets[i])
                        elif isinstance(value, (ast.Tuple, ast.List)) and len(value.elts) == len(t.elts):
                            vi = value.elts[i]
                            ri = self.alias(vi, st, fi)
                            # a, b = [X], {}: `a` is a new list holding X, not X itself
                            if isinstance(vi, (ast.List, ast.Set, ast.Dict, ast.ListComp, ast.SetComp, ast.DictComp)) or (isinstance(vi, ast.Call) and isinstance(vi.func, ast.Name) and vi.func.id in ("list", "set", "sorted", "dict") and vi.args):
                                ri = tag(ri)
                            bind_target(e, ri, vi)
                        else:
                            bind_target(e, roots)
                elif isinstance(t, ast.Starred):
                    bind_target(t.value, roots)

            if n.kind == "stmt" and isinstance(a, (ast.Assign, ast.AnnAssign)) and getattr(a, "value", None) is not None:
                v = a.value
                pos = None
                if isinstance(v, ast.Call):
                    r = self.call_ret(v, st, fi)
                    if r is not None and r[0] == "tuple":
                        pos = r[1]
                roots = self.alias(v, st, fi)
                if isinstance(v, (ast.List, ast.Set, ast.Dict, ast.ListComp, ast.SetComp, ast.DictComp)) or (isinstance(v, ast.Call) and isinstance(v.func, ast.Name) and v.func.id in ("list", "set", "sorted", "dict") and v.args):
                    roots = tag(roots)
                targets = a.targets if isinstance(a, ast.Assign) else [a.target]
                for t in targets:
                    if isinstance(t, (ast.Tuple, ast.List)) and isinstance(v, (ast.Tuple, ast.List)):
                        bind_target(t, untag(roots), v, pos)
                    else:
                        bind_target(t, roots, v, pos)
            elif n.kind == "stmt" and isinstance(a, ast.AugAssign):
                pass  # in-place: aliasing unchanged
            elif n.kind == "for":
                it = a.iter
                roots = EMPTY
                pos = None
                if isinstance(it, ast.Call) and isinstance(it.func, ast.Name) and it.func.id == "enumerate" and it.args:
                    pos = [EMPTY, untag(self.alias(it.args[0], st, fi))]
                elif isinstance(it, ast.Call) and isinstance(it.func, ast.Name) and it.func.id == "zip":
                    pos = [untag(self.alias(x, st, fi)) for x in it.args]
                else:
                    roots = untag(self.alias(it, st, fi))
                bind_target(a.target, roots, None, pos)
            elif n.kind == "with":
                for it in a.items:
                    if it.optional_vars is not None:
                        bind_target(it.optional_vars, EMPTY)
            elif n.kind == "stmt" and isinstance(a, ast.Delete):
                for t in a.targets:
                    if isinstance(t, ast.Name):
                        new[t.id] = EMPTY
            if not new:
                return fs
            keep = frozenset(x for x in fs if x[0] not in new)
            return keep | frozenset((k, r) for k, v in new.items() for r in v)

        IN = forward(cfg, init_fs, transfer, lambda x, y: x | y)
        return cfg, IN, to_dict

    def writes_in(self, fi: FunctionInfo) -> Tuple[List[WriteSite], object]:
        cfg, IN, to_dict = self._states(fi)
        sites: List[WriteSite] = []
        rets = []
        for n in cfg.nodes:
            if n.id not in IN or n.ast is None:
                continue
            st = to_dict(IN[n.id])
            a = n.ast
            if n.kind == "return":
                v = a.value
                if v is None:
                    rets.append(("single", EMPTY))
                elif isinstance(v, ast.Tuple):
                    rets.append(("tuple", [self.alias(e, st, fi) for e in v.elts]))
                elif isinstance(v, ast.Call):
                    r = self.call_ret(v, st, fi)
                    rets.append(r if r is not None else ("single", EMPTY))
                else:
                    rets.append(("single", self.alias(v, st, fi)))
            if n.kind in ("stmt", "for"):
                if isinstance(a, (ast.Assign, ast.AnnAssign, ast.AugAssign)) or n.kind == "for":
                    for t in assign_targets(a):
                        if isinstance(t, ast.Subscript):
                            roots = direct(self.alias(t.value, st, fi))
                            if roots:
                                sites.append(WriteSite(roots, a, "element store"))
                        elif isinstance(t, ast.Attribute) and not (isinstance(t.value, ast.Name) and t.value.id in ("self", "cls")):
                            roots = direct(self.alias(t.value, st, fi))
                            if roots:
                                sites.append(WriteSite(roots, a, "attribute store"))
                    if isinstance(a, ast.AugAssign) and isinstance(a.target, ast.Name):
                        roots = st.get(a.target.id, EMPTY)
                        if roots:
                            sites.append(WriteSite(roots, a, "augmented assignment (in place for arrays)"))
            # calls anywhere in the node's own expression
            if isinstance(a, (ast.FunctionDef, ast.AsyncFunctionDef, ast.ClassDef)):
                continue
            exprs = [a] if n.kind in ("stmt", "return", "test") else ([a.iter] if n.kind == "for" else [it.context_expr for it in a.items] if n.kind == "with" else [])
            for ex in exprs:
                for c in ast.walk(ex):
                    if isinstance(c, ast.Lambda):
                        continue
                    if isinstance(c, ast.Call):
                        self._call_writes(c, st, fi, sites)
        # return summary
        ret = None
        if rets:
            if all(r[0] == "tuple" for r in rets) and len({len(r[1]) for r in rets}) == 1:
                k = len(rets[0][1])
                ret = ("tuple", [frozenset().union(*(r[1][i] for r in rets)) for i in range(k)])
            else:
                u = EMPTY
                for r in rets:
                    if r[0] == "single":
                        u |= r[1]
                    else:
                        for x in r[1]:
                            u |= x
                ret = ("single", u)
        return sites, ret

    def _call_writes(self, c: ast.Call, st, fi: FunctionInfo, sites: List[WriteSite]):
        inner = c.func if isinstance(c.func, ast.Call) else None
        call = self._unwrap_delayed(c)
        f = call.func
        name = self._ext_name(call, fi)
        # out= keyword
        o = kwarg(call, "out")
        if o is not None:
            roots = untag(self.alias(o, st, fi))
            if roots:
                sites.append(WriteSite(roots, call, "out= argument"))
        if name and name.startswith("numpy."):
            short = name.split(".")[-1]
            if short in UFUNCS_OUT3 and len(call.args) >= 3:
                roots = self.alias(call.args[2], st, fi)
                if roots:
                    sites.append(WriteSite(roots, call, "ufunc output argument"))
            if short in UFUNCS_OUT2 and len(call.args) >= 2:
                roots = self.alias(call.args[1], st, fi)
                if roots:
                    sites.append(WriteSite(roots, call, "ufunc output argument"))
            if short == "clip" and len(call.args) >= 4:
                roots = self.alias(call.args[3], st, fi)
                if roots:
                    sites.append(WriteSite(roots, call, "clip output argument"))
        if name in INPLACE_FUNCS_ARG0 and call.args:
            roots = self.alias(call.args[0], st, fi)
            if roots:
                sites.append(WriteSite(roots, call, f"{name} works in place"))
        if isinstance(f, ast.Attribute):
            if f.attr in INPLACE_METHODS or f.attr in CONTAINER_MUTATORS:
                roots = self.alias(f.value, st, fi)
                if f.attr in CONTAINER_MUTATORS:
                    roots = direct(roots)
                else:
                    roots = untag(roots)
                if roots:
                    sites.append(WriteSite(roots, call, f".{f.attr}() works in place"))
            if f.attr in RNG_DRAW_METHODS and not (name or "").startswith(("numpy.random.", "random.")):
                roots = self.alias(f.value, st, fi)
                if roots:
                    sites.append(WriteSite(roots, call, f".{f.attr}() consumes the generator's state"))
            if f.attr in RNG_INPLACE_METHODS and call.args and name not in INPLACE_FUNCS_ARG0:
                roots = self.alias(call.args[0], st, fi)
                if roots:
                    sites.append(WriteSite(roots, call, f".{f.attr}(x) permutes x in place"))
            ip = kwarg(call, "inplace")
            if ip is not None and const_value(ip) is True:
                roots = self.alias(f.value, st, fi)
                if roots:
                    sites.append(WriteSite(roots, call, "inplace=True"))
        callee = self.resolve_call(self.repo, fi, call)
        if callee is not None:
            s = self.summaries.get(callee.qualname)
            if s is not None and s.writes:
                binding = self._bind(call, callee, fi)
                for p, desc in s.writes.items():
                    if p.startswith("self."):
                        # the callee writes an attribute object of ITS self; same object when called on our self
                        ff = call.func
                        on_self = isinstance(ff, ast.Attribute) and isinstance(ff.value, ast.Name) and ff.value.id in ("self", "cls")
                        on_self = on_self or (call.args and isinstance(call.args[0], ast.Name) and call.args[0].id == "self")
                        roots = frozenset([p]) if on_self else EMPTY
                    elif p.startswith("free:"):
                        roots = st.get(p[5:], EMPTY)
                    elif p in binding:
                        roots = untag(self.alias(binding[p], st, fi))
                    else:
                        roots = EMPTY
                    if roots:
                        sites.append(WriteSite(roots, call, f"callee writes its parameter '{p}'", via=f"{callee.qualname} [{desc}]"))

    def _summarise(self, fi: FunctionInfo) -> Summary:
        sites, ret = self.writes_in(fi)
        s = Summary()
        for w in sites:
            for r in w.roots:
                if r.startswith(ELEM):
                    continue
                if r not in s.writes:
                    where = f"{fi.module.relpath}:{getattr(w.node, 'lineno', 0)} {w.how}" + (f" via {w.via}" if w.via else "")
                    s.writes[r] = where
        # nested functions referenced (not called) inside, e.g. delayed(g) or g passed as callback:
        s.ret = ret
        return s
