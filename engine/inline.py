"""E-INL: look through helpers the rule tables do not know.

The rules name the functions they reason about (the anchors of the properties
and the private helpers that existed when the rules were written; the list is
`engine/known_functions.txt`).  A refactoring that *extracts* a private helper
(or a closure) out of such a function moves statements the rules want to see
into a function they have never heard of.  Before the repository is indexed,
calls to such unknown private helpers are therefore expanded in place, so that
every rule sees the statements in the context of their caller, exactly as if
the helper had not been extracted:

    * pure-expression helpers (`return <expr>` only) are substituted;
    * otherwise the parameters become assignments (or are substituted when the
      argument is a plain name/attribute/constant and the parameter is never
      re-bound), the locals are renamed apart, and the body is spliced in
      front of the statement, with
        - `return helper(..)`          -> the body with its own returns kept
        - `x = helper(..)`, `helper(..)` -> a single-exit form: `if c: return a`
          followed by the rest becomes `if c: x = a  else: <rest>`;
    * helpers with `yield`, `nonlocal/global`, `*args/**kwargs`, returns inside
      loops/try/with (other than in tail position), or that are recursive, are
      left alone: their calls stay opaque calls;
    * a helper that no longer has any reference after the expansion is removed
      from the tree, so that whole-package rules do not analyse it out of
      context.

The transformation is purely syntactic (nothing is run); statements keep the
line number of the call they replace so that reports point at the call site.
"""

from __future__ import annotations

import ast
import os
from typing import Dict, List, Optional, Set, Tuple

from .util import clone_ast

KNOWN_FILE = os.path.join(os.path.dirname(os.path.abspath(__file__)), "known_functions.txt")
MAX_DEPTH = 4

_SCOPE_NODES = (ast.FunctionDef, ast.AsyncFunctionDef, ast.Lambda, ast.ClassDef, ast.ListComp, ast.SetComp, ast.DictComp, ast.GeneratorExp)


def load_known() -> Optional[Set[str]]:
    try:
        with open(KNOWN_FILE, "r", encoding="utf-8") as f:
            return {l.strip() for l in f if l.strip() and not l.startswith("#")}
    except OSError:
        return None


class _Def:
    def __init__(self, node, qualname, cls, parent, kind):
        self.node = node
        self.qualname = qualname
        self.cls = cls  # ClassDef or None
        self.parent = parent  # _Def of the enclosing function or None
        self.kind = kind  # 'function' | 'method' | 'static' | 'class' | 'nested'
        self.done = False


def _decorators(node) -> Set[str]:
    out = set()
    for d in node.decorator_list:
        if isinstance(d, ast.Name):
            out.add(d.id)
        elif isinstance(d, ast.Attribute):
            out.add(d.attr)
    return out


def _own_walk(node):
    """nodes of a function body, not entering nested scopes"""
    stack = list(ast.iter_child_nodes(node))
    while stack:
        n = stack.pop()
        yield n
        if isinstance(n, (ast.FunctionDef, ast.AsyncFunctionDef, ast.ClassDef, ast.Lambda)):
            continue
        stack.extend(ast.iter_child_nodes(n))


class Inliner:
    def __init__(self, tree: ast.Module, modname: str, known: Set[str]):
        self.tree = tree
        self.modname = modname
        self.known = known
        self.defs: Dict[int, _Def] = {}
        self.module_funcs: Dict[str, _Def] = {}
        self.class_methods: Dict[str, Dict[str, _Def]] = {}
        self.class_bases: Dict[str, List[str]] = {}
        self.counter = 0
        self.expanded: List[str] = []
        self._collect()

    # ------------------------------------------------------------ tables
    def _collect(self):
        def visit(node, cls, parent, prefix):
            if isinstance(node, (ast.FunctionDef, ast.AsyncFunctionDef)):
                qn = prefix + node.name
                if parent is not None:
                    kind = "nested"
                elif cls is not None:
                    dec = _decorators(node)
                    kind = "static" if "staticmethod" in dec else ("class" if "classmethod" in dec else "method")
                else:
                    kind = "function"
                d = _Def(node, qn, cls, parent, kind)
                self.defs[id(node)] = d
                if kind == "function":
                    self.module_funcs.setdefault(node.name, d)
                elif kind in ("method", "static", "class"):
                    self.class_methods.setdefault(cls.name, {}).setdefault(node.name, d)
                for sub in _defs_in(node.body):
                    visit(sub, cls, d, qn + ".<locals>.")
            elif isinstance(node, ast.ClassDef):
                if parent is None and cls is None:
                    self.class_bases[node.name] = [b.id for b in node.bases if isinstance(b, ast.Name)]
                    for sub in node.body:
                        visit(sub, node, None, f"{self.modname}:{node.name}.")
                else:
                    for sub in node.body:
                        visit(sub, None, parent, prefix + node.name + ".")
            elif isinstance(node, (ast.If, ast.Try)):
                for sub in _defs_in([node]):
                    if sub is not node:
                        visit(sub, cls, parent, prefix)

        for node in self.tree.body:
            visit(node, None, None, self.modname + ":")

    def _external_bases(self, clsname: str, seen=None) -> List[str]:
        """dotted names of the bases imported from outside the package"""
        seen = seen or set()
        if clsname in seen:
            return []
        seen.add(clsname)
        if not hasattr(self, "_imports"):
            self._imports: Dict[str, str] = {}
            for n in ast.walk(self.tree):
                if isinstance(n, ast.ImportFrom) and n.level == 0 and n.module:
                    for a in n.names:
                        self._imports[a.asname or a.name] = f"{n.module}.{a.name}"
        out = []
        for b in self.class_bases.get(clsname, []):
            if b in self.class_bases:
                out += self._external_bases(b, seen)
            elif b in self._imports and not self._imports[b].startswith("mlinsights"):
                out.append(self._imports[b])
        return out

    def _overrides_external(self, d: _Def) -> bool:
        """a method whose name an external base class also defines is part of that
        class's protocol (the base may call it): never looked through nor dropped"""
        if d.cls is None or d.kind not in ("method", "static", "class"):
            return False
        try:
            from . import extsrc
        except Exception:
            return False
        for b in self._external_bases(d.cls.name):
            try:
                if extsrc.find_method(b, d.node.name) is not None:
                    return True
            except Exception:
                continue
        return False

    def is_new(self, d: _Def) -> bool:
        name = d.node.name
        if d.qualname in self.known:
            return False
        if self._overrides_external(d):
            return False
        if d.kind == "nested":
            # a closure of a helper that is itself looked through is judged where it lands
            p = d.parent
            while p is not None:
                if p.qualname not in self.known and (p.kind == "nested" or p.node.name.startswith("_")) and not (p.node.name.startswith("__") and p.node.name.endswith("__")):
                    return False
                p = p.parent
            return True
        if name.startswith("__") and name.endswith("__"):
            return False
        return name.startswith("_")

    def _method(self, clsname: str, name: str, seen=None) -> Optional[_Def]:
        seen = seen or set()
        if clsname in seen:
            return None
        seen.add(clsname)
        d = self.class_methods.get(clsname, {}).get(name)
        if d is not None:
            return d
        for b in self.class_bases.get(clsname, []):
            r = self._method(b, name, seen)
            if r is not None:
                return r
        return None

    # ------------------------------------------------------------ resolution
    def resolve(self, call: ast.Call, ctx: _Def) -> Optional[Tuple[_Def, Optional[ast.AST]]]:
        """(definition, receiver expression or None)"""
        f = call.func
        if isinstance(f, ast.Name):
            p = ctx
            while p is not None:
                for sub in _defs_in(p.node.body):
                    if isinstance(sub, (ast.FunctionDef,)) and sub.name == f.id:
                        return self.defs.get(id(sub)), None
                p = p.parent
            d = self.module_funcs.get(f.id)
            if d is not None:
                return d, None
            return None
        if isinstance(f, ast.Attribute):
            v = f.value
            own_cls = ctx
            while own_cls is not None and own_cls.cls is None:
                own_cls = own_cls.parent
            clsname = own_cls.cls.name if own_cls is not None else None
            if isinstance(v, ast.Name) and v.id in ("self", "cls") and clsname:
                d = self._method(clsname, f.attr)
                if d is not None:
                    return d, v
                return None
            if isinstance(v, ast.Name) and v.id in self.class_methods:
                d = self._method(v.id, f.attr)
                if d is not None:
                    return d, None
                return None
            if isinstance(v, ast.Call) and isinstance(v.func, ast.Name) and v.func.id == "type" and len(v.args) == 1 and isinstance(v.args[0], ast.Name) and v.args[0].id == "self" and clsname:
                d = self._method(clsname, f.attr)
                if d is not None and d.kind in ("static", "class"):
                    return d, None
        return None

    # ------------------------------------------------------------ driver
    def run(self) -> ast.Module:
        for d in list(self.defs.values()):
            self.transform_def(d, [])
        self._drop_unreferenced()
        ast.fix_missing_locations(self.tree)
        return self.tree

    def transform_def(self, d: _Def, stack: List[_Def]):
        if d.done or d in stack:
            return
        d.done = True
        for _ in range(3):
            n0 = len(self.expanded)
            d.node.body = self.block(d.node.body, d, stack + [d], tail=True)
            if len(self.expanded) == n0:
                break
            # closures that arrived with an expanded helper now belong to this function:
            # they are looked through or kept according to their name HERE
            self._adopt_nested(d)

    def _adopt_nested(self, d: _Def):
        for sub in _defs_in(d.node.body):
            if isinstance(sub, (ast.FunctionDef, ast.AsyncFunctionDef)) and id(sub) not in self.defs:
                nd = _Def(sub, d.qualname + ".<locals>." + sub.name, d.cls, d, "nested")
                self.defs[id(sub)] = nd
                self._adopt_nested(nd)

    # ------------------------------------------------------------ blocks
    def block(self, stmts: List[ast.stmt], ctx: _Def, stack, tail=False) -> List[ast.stmt]:
        out: List[ast.stmt] = []
        for idx, s in enumerate(stmts):
            is_last = idx == len(stmts) - 1
            if isinstance(s, (ast.FunctionDef, ast.AsyncFunctionDef, ast.ClassDef)):
                out.append(s)
                continue
            # nested blocks first
            for fld in ("body", "orelse", "finalbody"):
                b = getattr(s, fld, None)
                if isinstance(b, list) and b and isinstance(b[0], ast.stmt):
                    setattr(s, fld, self.block(b, ctx, stack))
            if isinstance(s, ast.Try):
                for h in s.handlers:
                    h.body = self.block(h.body, ctx, stack)
            self.expand_pure_in_scopes(s, ctx, stack)
            pre = self.expand_in_statement(s, ctx, stack)
            if pre is None:
                out.append(s)
            else:
                out.extend(pre)
        return out

    def expand_pure_in_scopes(self, s: ast.stmt, ctx: _Def, stack):
        """inside comprehensions and lambdas only helpers that are one `return
        <expr>` can be expanded (there is no statement position to splice into)"""
        for fld, val in ast.iter_fields(s):
            if fld in ("body", "orelse", "finalbody", "handlers") and isinstance(val, list) and val and isinstance(val[0], (ast.stmt, ast.ExceptHandler)):
                continue
            for root in (val if isinstance(val, list) else [val]):
                if not isinstance(root, ast.AST):
                    continue
                for scope in [n for n in ast.walk(root) if isinstance(n, (ast.Lambda, ast.ListComp, ast.SetComp, ast.DictComp, ast.GeneratorExp))]:
                    guard = 0
                    changed = True
                    while changed and guard < 8:
                        guard += 1
                        changed = False
                        for call in [c for c in ast.walk(scope) if isinstance(c, ast.Call)]:
                            r = self.resolve(call, ctx)
                            if r is None:
                                continue
                            d, recv = r
                            if d is None or not self.is_new(d) or d in stack or len(stack) > MAX_DEPTH:
                                continue
                            e = self.pure_expression(call, d, recv, stack)
                            if e is None:
                                continue
                            _replace_node(scope, call, e)
                            self.expanded.append(d.qualname)
                            changed = True
                            break

    def pure_expression(self, call: ast.Call, d: _Def, recv, stack) -> Optional[ast.AST]:
        g = d.node
        a = g.args
        if a.vararg or a.kwarg or d.kind not in ("function", "static", "method", "nested"):
            return None
        if any(isinstance(x, ast.Starred) for x in call.args) or any(k.arg is None for k in call.keywords):
            return None
        self.transform_def(d, stack)
        body = [x for x in g.body if not (isinstance(x, ast.Expr) and isinstance(x.value, ast.Constant))]
        if len(body) != 1 or not isinstance(body[0], ast.Return) or body[0].value is None:
            return None
        names = [x.arg for x in a.posonlyargs + a.args]
        bind: Dict[str, ast.AST] = {}
        if d.kind == "method":
            if recv is None or not names:
                return None
            bind[names[0]] = recv
            names = names[1:]
        if len(call.args) > len(names):
            return None
        for n_, v in zip(names, call.args):
            bind[n_] = v
        params = [x.arg for x in a.posonlyargs + a.args + a.kwonlyargs]
        for k in call.keywords:
            if k.arg in bind or k.arg not in params:
                return None
            bind[k.arg] = k.value
        pos = a.posonlyargs + a.args
        defaults = dict(zip([x.arg for x in pos[len(pos) - len(a.defaults):]], a.defaults))
        defaults.update({x.arg: dv for x, dv in zip(a.kwonlyargs, a.kw_defaults) if dv is not None})
        for p_ in params:
            if p_ not in bind:
                if p_ not in defaults:
                    return None
                bind[p_] = defaults[p_]
        expr = body[0].value
        uses: Dict[str, int] = {}
        for n in ast.walk(expr):
            if isinstance(n, ast.Name) and isinstance(n.ctx, ast.Load):
                uses[n.id] = uses.get(n.id, 0) + 1
            if isinstance(n, (ast.Lambda, ast.ListComp, ast.SetComp, ast.DictComp, ast.GeneratorExp, ast.NamedExpr)):
                return None
        for p_ in params:
            if not (_simple(bind[p_]) or uses.get(p_, 0) <= 1):
                return None
        return _Rename({}, {p_: bind[p_] for p_ in params}).visit(clone_ast(expr))

    def _header_exprs(self, s: ast.stmt) -> List[Tuple[ast.AST, str]]:
        if isinstance(s, (ast.Assign, ast.AnnAssign, ast.AugAssign, ast.Return)):
            return [(s, "value")] if getattr(s, "value", None) is not None else []
        if isinstance(s, ast.Expr):
            return [(s, "value")]
        if isinstance(s, ast.If):
            return [(s, "test")]
        if isinstance(s, ast.For):
            return [(s, "iter")]
        if isinstance(s, ast.Assert):
            return [(s, "test")]
        if isinstance(s, ast.Raise):
            return [(s, "exc")] if s.exc is not None else []
        return []

    def _candidates(self, e: ast.AST) -> List[ast.Call]:
        """calls evaluated unconditionally, in source order, outside nested scopes"""
        out: List[ast.Call] = []

        def walk(n):
            if isinstance(n, _SCOPE_NODES):
                return
            if isinstance(n, ast.BoolOp):
                walk(n.values[0])
                return
            if isinstance(n, ast.IfExp):
                walk(n.test)
                return
            for c in ast.iter_child_nodes(n):
                walk(c)
            if isinstance(n, ast.Call):
                out.append(n)

        walk(e)
        return out

    def expand_in_statement(self, s: ast.stmt, ctx: _Def, stack) -> Optional[List[ast.stmt]]:
        """returns the statements replacing `s` (expansion + s), or None"""
        result: List[ast.stmt] = []
        changed = False
        guard = 0
        while guard < 12:
            guard += 1
            done_one = False
            for holder, fld in self._header_exprs(s):
                e = getattr(holder, fld)
                for call in self._candidates(e):
                    r = self.resolve(call, ctx)
                    if r is None:
                        continue
                    d, recv = r
                    if d is None or not self.is_new(d) or d in stack or len(stack) > MAX_DEPTH:
                        continue
                    exp = self.expand_call(call, d, recv, s, holder, fld, ctx, stack)
                    if exp is None:
                        continue
                    pre, replacement, drop_stmt = exp
                    result.extend(pre)
                    changed = True
                    self.expanded.append(d.qualname)
                    if drop_stmt:
                        return result
                    _replace_node(s, call, replacement)
                    done_one = True
                    break
                if done_one:
                    break
            if not done_one:
                break
        if not changed:
            return None
        result.append(s)
        return result

    # ------------------------------------------------------------ one call
    def expand_call(self, call: ast.Call, d: _Def, recv, s: ast.stmt, holder, fld, ctx: _Def, stack):
        g = d.node
        a = g.args
        if a.vararg or a.kwarg or isinstance(g, ast.AsyncFunctionDef):
            return None
        if any(isinstance(x, ast.Starred) for x in call.args) or any(k.arg is None for k in call.keywords):
            return None
        for n in _own_walk(g):
            if isinstance(n, (ast.Yield, ast.YieldFrom, ast.Await, ast.Global, ast.Nonlocal)):
                return None
        if d.kind == "nested":
            # a closure is expanded only inside the scope chain that defines it
            p, ok = ctx, False
            while p is not None:
                if p is d.parent:
                    ok = True
                p = p.parent
            if not ok:
                return None
        if d.kind == "nested" and g.decorator_list:
            return None
        if d.kind in ("function",) and g.decorator_list:
            return None
        self.transform_def(d, stack)
        params = [x.arg for x in a.posonlyargs + a.args + a.kwonlyargs]
        pos = a.posonlyargs + a.args
        defaults: Dict[str, ast.AST] = dict(zip([x.arg for x in pos[len(pos) - len(a.defaults):]], a.defaults))
        defaults.update({x.arg: dv for x, dv in zip(a.kwonlyargs, a.kw_defaults) if dv is not None})
        bind: Dict[str, ast.AST] = {}
        names = [x.arg for x in pos]
        if d.kind in ("method", "class"):
            if not names:
                return None
            first = names[0]
            if recv is not None:
                if d.kind == "class" and isinstance(recv, ast.Name) and recv.id == "self":
                    bind[first] = ast.Call(func=ast.Name(id="type", ctx=ast.Load()), args=[ast.Name(id="self", ctx=ast.Load())], keywords=[])
                else:
                    bind[first] = recv
                names = names[1:]
            elif d.kind == "class":
                bind[first] = call.func.value if isinstance(call.func, ast.Attribute) else ast.Name(id=d.cls.name, ctx=ast.Load())
                names = names[1:]
            # Class.method(self, ...) : receiver passed positionally, nothing to do
        if len(call.args) > len(names):
            return None
        for n_, v in zip(names, call.args):
            bind[n_] = v
        for k in call.keywords:
            if k.arg in bind or k.arg not in params:
                return None
            bind[k.arg] = k.value
        for p_ in params:
            if p_ not in bind:
                if p_ in defaults:
                    bind[p_] = defaults[p_]
                else:
                    return None
        body = [clone_ast(x) for x in g.body]
        if body and isinstance(body[0], ast.Expr) and isinstance(body[0].value, ast.Constant) and isinstance(body[0].value.value, str):
            body = body[1:]
        if not body:
            body = [ast.Pass()]
        self.counter += 1
        tag = f"__{g.name.strip('_')}{self.counter}"
        stored = set()
        for st in body:
            for n in [st] + list(_own_walk(st)):
                if isinstance(n, ast.Name) and isinstance(n.ctx, (ast.Store, ast.Del)):
                    stored.add(n.id)
                elif isinstance(n, (ast.FunctionDef, ast.ClassDef)):
                    stored.add(n.name)
                elif isinstance(n, ast.ExceptHandler) and n.name:
                    stored.add(n.name)
                elif isinstance(n, (ast.Import, ast.ImportFrom)):
                    for al in n.names:
                        stored.add((al.asname or al.name).split(".")[0])
        imported = set()
        for st in body:
            for n in [st] + list(_own_walk(st)):
                if isinstance(n, (ast.Import, ast.ImportFrom)):
                    for al in n.names:
                        imported.add((al.asname or al.name).split(".")[0])
        rename: Dict[str, str] = {}
        subst: Dict[str, ast.AST] = {}
        pre: List[ast.stmt] = []
        # names the caller uses outside the call statement: a helper local may keep its own
        # name only when the caller knows no such name (otherwise it is renamed apart);
        # names the call statement itself assigns are dead across the call
        s_targets = set()
        if isinstance(s, (ast.Assign, ast.AnnAssign, ast.AugAssign)):
            for t_ in (s.targets if isinstance(s, ast.Assign) else [s.target]):
                for n in ast.walk(t_):
                    if isinstance(n, ast.Name):
                        s_targets.add(n.id)
        # a conservative count: a name is "free" for the helper when it appears in the caller
        # only inside the call statement's targets
        name_counts: Dict[str, int] = {}
        for n in ast.walk(ctx.node):
            if isinstance(n, ast.Name):
                name_counts[n.id] = name_counts.get(n.id, 0) + 1
            elif isinstance(n, ast.arg):
                name_counts[n.arg] = name_counts.get(n.arg, 0) + 2
        ctx_params = {a.arg for a in getattr(getattr(ctx.node, "args", None), "args", [])} | {a.arg for a in getattr(getattr(ctx.node, "args", None), "kwonlyargs", [])}

        def free_for_helper(nm: str) -> bool:
            return nm not in name_counts or (nm in s_targets and nm not in getattr(self, "_reserved", set()))

        for p_ in params:
            v = bind[p_]
            if p_ not in stored and _simple(v):
                subst[p_] = v
            elif isinstance(v, ast.Name) and (v.id in s_targets or (isinstance(s, ast.Return) and getattr(holder, fld) is call)) and sum(1 for q in params if isinstance(bind[q], ast.Name) and bind[q].id == v.id) == 1 and v.id not in {"self", "cls"}:
                # in `return helper(a, ..)` the caller's `a` is dead after the call as well
                # `X, .. = helper(X, ..)`: the helper may work on the caller's own variable
                if p_ != v.id:
                    rename[p_] = v.id
            elif isinstance(v, ast.Name) and v.id not in {"self", "cls"} and v.id in ctx_params and name_counts.get(v.id, 0) == 2 + sum(1 for n in ast.walk(s) if isinstance(n, ast.Name) and n.id == v.id) and sum(1 for q in params if isinstance(bind[q], ast.Name) and bind[q].id == v.id) == 1:
                # a parameter of the caller that occurs nowhere but in this call: the helper, which
                # rebinds its own parameter, may work on the caller's variable (it is dead afterwards)
                if p_ != v.id:
                    rename[p_] = v.id
            else:
                rename[p_] = p_ + tag
                pre.append(ast.Assign(targets=[ast.Name(id=rename[p_], ctx=ast.Store())], value=v))
        taken = set(rename.values())
        for n_ in sorted(stored):
            if n_ in rename or n_ in imported or n_ in params:
                continue
            if free_for_helper(n_) and n_ not in taken:
                taken.add(n_)
                continue  # keeps its own name
            rename[n_] = n_ + tag
        # names of the closure's free variables are the caller's own: leave them
        body = [_Rename(rename, subst).visit(st) for st in body]
        if subst:
            body = _fold_block(body)
        # pure-expression helper
        if len(body) == 1 and isinstance(body[0], ast.Return) and body[0].value is not None and not pre:
            return [], body[0].value, False
        is_whole = getattr(holder, fld) is call
        if isinstance(s, ast.Return) and is_whole:
            new = pre + body
            if _may_fall_through(body):
                new.append(ast.Return(value=ast.Constant(value=None)))
            for st in new:
                _stamp(st, s)
            return new, None, True
        if _has_return_in_loop(body):
            return None
        if isinstance(s, ast.Expr) and is_whole:
            conv = _single_exit(body, None)
            if conv is None:
                return None
            new = pre + conv
            for st in new:
                _stamp(st, s)
            return new, None, True
        # value needed
        if isinstance(s, ast.Assign) and is_whole and len(s.targets) == 1 and isinstance(s.targets[0], ast.Name) and s.targets[0].id not in _names_loaded(body):
            target = s.targets[0].id
            conv = _single_exit(body, target)
            if conv is None:
                return None
            new = pre + conv
            for st in new:
                _stamp(st, s)
            return new, None, True
        if isinstance(s, ast.Assign) and is_whole and len(s.targets) == 1 and isinstance(s.targets[0], ast.Tuple) and all(isinstance(e, ast.Name) or (isinstance(e, ast.Attribute) and isinstance(e.value, ast.Name) and e.value.id == "self" and not any(isinstance(x, ast.Attribute) and x.attr == e.attr for st_ in body for x in ast.walk(st_))) for e in s.targets[0].elts):
            tnames = {e.id for e in s.targets[0].elts if isinstance(e, ast.Name)}
            rets = _returns_of(body)
            if rets and all(isinstance(r.value, ast.Tuple) and len(r.value.elts) == len(s.targets[0].elts) for r in rets):
                conv = _single_exit(body, s.targets[0])
                if conv is not None:
                    new = pre + conv
                    for st in new:
                        _stamp(st, s)
                    return new, None, True
        # `... ; return local` as the only exit: the local itself stands for the call
        if body and isinstance(body[-1], ast.Return) and isinstance(body[-1].value, ast.Name) and len(_returns_of(body)) == 1 and not _has_return_in_loop(body[:-1]):
            new = pre + body[:-1]
            for st in new:
                _stamp(st, s)
            return new, ast.Name(id=body[-1].value.id, ctx=ast.Load()), False
        ret = "ret" + tag
        conv = _single_exit(body, ret)
        if conv is None:
            return None
        new = pre + conv
        for st in new:
            _stamp(st, s)
        return new, ast.Name(id=ret, ctx=ast.Load()), False

    # ------------------------------------------------------------ clean-up
    def _drop_unreferenced(self):
        expanded = set(self.expanded)
        if not expanded:
            return
        for d in list(self.defs.values()):
            if d.qualname not in expanded:
                continue
            name = d.node.name
            refs = 0
            for n in ast.walk(self.tree):
                if n is d.node:
                    continue
                if isinstance(n, ast.Name) and n.id == name and isinstance(n.ctx, ast.Load):
                    refs += 1
                elif isinstance(n, ast.Attribute) and n.attr == name:
                    refs += 1
                elif isinstance(n, ast.Constant) and n.value == name:
                    refs += 1
            # references from inside the definition itself do not count
            for n in ast.walk(d.node):
                if isinstance(n, ast.Name) and n.id == name and isinstance(n.ctx, ast.Load):
                    refs -= 1
                elif isinstance(n, ast.Attribute) and n.attr == name:
                    refs -= 1
            if refs <= 0:
                _remove_def(self.tree, d.node)


# ---------------------------------------------------------------- helpers
def _defs_in(stmts):
    for s in stmts:
        if isinstance(s, (ast.FunctionDef, ast.AsyncFunctionDef, ast.ClassDef)):
            yield s
        elif isinstance(s, (ast.If, ast.For, ast.While, ast.With, ast.Try)):
            for fld in ("body", "orelse", "finalbody"):
                yield from _defs_in(getattr(s, fld, []) or [])
            if isinstance(s, ast.Try):
                for h in s.handlers:
                    yield from _defs_in(h.body)


def _simple(v: ast.AST) -> bool:
    if isinstance(v, (ast.Name, ast.Constant)):
        return True
    if isinstance(v, ast.Attribute):
        return _simple(v.value)
    if isinstance(v, ast.Subscript):
        return _simple(v.value) and isinstance(v.slice, (ast.Name, ast.Constant))
    if isinstance(v, ast.UnaryOp) and isinstance(v.operand, ast.Constant):
        return True
    return False


class _Rename(ast.NodeTransformer):
    def __init__(self, rename, subst):
        self.rename = rename
        self.subst = subst

    def visit_Name(self, n):
        if n.id in self.rename:
            return ast.copy_location(ast.Name(id=self.rename[n.id], ctx=n.ctx), n)
        if n.id in self.subst and isinstance(n.ctx, ast.Load):
            return clone_ast(self.subst[n.id])
        return n

    def visit_FunctionDef(self, n):
        # a nested def inside the helper: rename its own name, look inside for
        # free uses of the helper's locals
        if n.name in self.rename:
            n.name = self.rename[n.name]
        inner_params = {x.arg for x in n.args.posonlyargs + n.args.args + n.args.kwonlyargs}
        sub = _Rename({k: v for k, v in self.rename.items() if k not in inner_params}, {k: v for k, v in self.subst.items() if k not in inner_params})
        n.body = [sub.visit(s) for s in n.body]
        n.args.defaults = [self.visit(x) for x in n.args.defaults]
        return n

    def visit_Lambda(self, n):
        inner_params = {x.arg for x in n.args.posonlyargs + n.args.args + n.args.kwonlyargs}
        sub = _Rename({k: v for k, v in self.rename.items() if k not in inner_params}, {k: v for k, v in self.subst.items() if k not in inner_params})
        n.body = sub.visit(n.body)
        n.args.defaults = [self.visit(x) for x in n.args.defaults]
        return n

    def visit_ExceptHandler(self, n):
        if n.name and n.name in self.rename:
            n.name = self.rename[n.name]
        return self.generic_visit(n)

    def visit_keyword(self, n):
        n.value = self.visit(n.value)
        return n


def _names_loaded(stmts) -> Set[str]:
    out = set()
    for s in stmts:
        for n in ast.walk(s):
            if isinstance(n, ast.Name):
                out.add(n.id)
    return out


def _may_fall_through(stmts) -> bool:
    if not stmts:
        return True
    last = stmts[-1]
    if isinstance(last, (ast.Return, ast.Raise)):
        return False
    if isinstance(last, ast.If):
        return _may_fall_through(last.body) or _may_fall_through(last.orelse)
    return True


def _has_return_in_loop(stmts, in_loop=False) -> bool:
    for s in stmts:
        if isinstance(s, ast.Return) and in_loop:
            return True
        if isinstance(s, (ast.FunctionDef, ast.AsyncFunctionDef, ast.ClassDef)):
            continue
        if isinstance(s, (ast.For, ast.While, ast.With, ast.Try)):
            inner = list(s.body) + list(getattr(s, "orelse", []) or []) + list(getattr(s, "finalbody", []) or [])
            if isinstance(s, ast.Try):
                for h in s.handlers:
                    inner += h.body
            if _has_return_in_loop(inner, True):
                return True
        elif isinstance(s, ast.If):
            if _has_return_in_loop(s.body, in_loop) or _has_return_in_loop(s.orelse, in_loop):
                return True
    return False


def _always_exits(stmts) -> bool:
    return bool(stmts) and not _may_fall_through(stmts)


def _contains_return(stmts) -> bool:
    for s in stmts:
        if isinstance(s, ast.Return):
            return True
        if isinstance(s, ast.If) and (_contains_return(s.body) or _contains_return(s.orelse)):
            return True
    return False


def _returns_of(stmts) -> List[ast.Return]:
    out = []
    for s in stmts:
        if isinstance(s, ast.Return):
            out.append(s)
        elif isinstance(s, ast.If):
            out += _returns_of(s.body) + _returns_of(s.orelse)
    return out


def _target(target):
    if isinstance(target, str):
        return ast.Name(id=target, ctx=ast.Store())
    return clone_ast(target)


def _assign_to(target, value: ast.AST) -> ast.stmt:
    """`target = value`; for a tuple target the positions that assign a name to
    itself (`pos` in `index, pos = new_index, pos`) are dropped"""
    if isinstance(target, ast.Tuple) and isinstance(value, ast.Tuple) and len(target.elts) == len(value.elts):
        keep = [(t, v) for t, v in zip(target.elts, value.elts) if not (isinstance(t, ast.Name) and isinstance(v, ast.Name) and t.id == v.id)]
        if not keep:
            return ast.Pass()
        if len(keep) == 1:
            return ast.Assign(targets=[clone_ast(keep[0][0])], value=keep[0][1])
        if len(keep) < len(target.elts):
            return ast.Assign(targets=[ast.Tuple(elts=[clone_ast(t) for t, _ in keep], ctx=ast.Store())], value=ast.Tuple(elts=[v for _, v in keep], ctx=ast.Load()))
    return ast.Assign(targets=[_target(target)], value=value)


def _single_exit(stmts: List[ast.stmt], target) -> Optional[List[ast.stmt]]:
    """rewrite a block whose returns sit in if/else structure only so that it
    assigns `target` (when given) instead of returning"""
    out: List[ast.stmt] = []
    for i, s in enumerate(stmts):
        rest = stmts[i + 1:]
        if isinstance(s, ast.Return):
            if target is not None:
                out.append(_assign_to(target, s.value if s.value is not None else ast.Constant(value=None)))
            elif s.value is not None and not isinstance(s.value, (ast.Constant, ast.Name)):
                out.append(ast.Expr(value=s.value))
            if not out:
                out.append(ast.Pass())
            return out
        if isinstance(s, ast.If) and (_contains_return(s.body) or _contains_return(s.orelse)):
            b_exits, o_exits = _always_exits(s.body), _always_exits(s.orelse)
            if b_exits and not _contains_return(s.orelse):
                body = _single_exit(s.body, target)
                tail = _single_exit(list(s.orelse) + rest, target)
                if body is None or tail is None:
                    return None
                new = ast.If(test=s.test, body=body, orelse=tail if not (len(tail) == 1 and isinstance(tail[0], ast.Pass)) else [])
                out.append(new)
                return out
            if o_exits and not _contains_return(s.body):
                orelse = _single_exit(s.orelse, target)
                tail = _single_exit(list(s.body) + rest, target)
                if orelse is None or tail is None:
                    return None
                out.append(ast.If(test=s.test, body=tail, orelse=orelse))
                return out
            if b_exits and o_exits:
                body = _single_exit(s.body, target)
                orelse = _single_exit(s.orelse, target)
                if body is None or orelse is None:
                    return None
                out.append(ast.If(test=s.test, body=body, orelse=orelse))
                return out
            # general case: duplicate the rest into both branches
            body = _single_exit(list(s.body) + [clone_ast(x) for x in rest], target)
            orelse = _single_exit(list(s.orelse) + rest, target)
            if body is None or orelse is None:
                return None
            out.append(ast.If(test=s.test, body=body, orelse=orelse))
            return out
        if isinstance(s, (ast.For, ast.While, ast.With, ast.Try)) and _has_return_in_loop([s]):
            return None
        out.append(s)
    if isinstance(target, str):
        out.append(ast.Assign(targets=[_target(target)], value=ast.Constant(value=None)))
    if not out:
        out.append(ast.Pass())
    return out


def _stamp(st: ast.stmt, at: ast.stmt):
    """give every node of an expanded statement the position of the call site"""
    for n in ast.walk(st):
        if hasattr(at, "lineno"):
            n.lineno = at.lineno
            n.end_lineno = getattr(at, "end_lineno", at.lineno)
            n.col_offset = getattr(at, "col_offset", 0)
            n.end_col_offset = getattr(at, "end_col_offset", 0)


def _replace_node(root: ast.AST, old: ast.AST, new: ast.AST):
    for n in ast.walk(root):
        for fld, val in ast.iter_fields(n):
            if val is old:
                setattr(n, fld, new)
                return
            if isinstance(val, list):
                for i, x in enumerate(val):
                    if x is old:
                        val[i] = new
                        return


def _remove_def(tree: ast.AST, node: ast.AST):
    for n in ast.walk(tree):
        for fld in ("body", "orelse", "finalbody"):
            b = getattr(n, fld, None)
            if isinstance(b, list) and node in b:
                b.remove(node)
                if not b and fld == "body":
                    b.append(ast.Pass())
                return


def expand_unknown_helpers(tree: ast.Module, modname: str, known: Set[str]) -> Tuple[ast.Module, List[str]]:
    inl = Inliner(tree, modname, known)
    inl.run()
    return tree, inl.expanded


# ---------------------------------------------------------------- literal loops
def _loop_free_of(stmts, kinds) -> bool:
    for s in stmts:
        for n in [s] + list(_own_walk(s)):
            if isinstance(n, kinds):
                return False
    return True


def _continue_to_else(stmts: List[ast.stmt]) -> Optional[List[ast.stmt]]:
    """body of a loop iteration without `continue`: `if c: continue; rest`
    becomes `if not c: rest` (nested loops keep their own continues)"""
    out: List[ast.stmt] = []
    for i, s in enumerate(stmts):
        rest = stmts[i + 1:]
        if isinstance(s, ast.Continue):
            return out if out else [ast.Pass()]
        if isinstance(s, ast.If) and (_has_continue(s.body) or _has_continue(s.orelse)):
            body = _continue_to_else(list(s.body) + ([clone_ast(x) for x in rest] if not _ends_with_continue(s.body) else []))
            orelse = _continue_to_else(list(s.orelse) + (list(rest) if not _ends_with_continue(s.orelse) else []))
            if body is None or orelse is None:
                return None
            if _ends_with_continue(s.body) and len(s.body) == 1 and not s.orelse:
                # `if c: continue` + rest  ->  `if not c: rest`
                tail = _continue_to_else(list(rest))
                if tail is None:
                    return None
                out.append(ast.If(test=ast.UnaryOp(op=ast.Not(), operand=s.test), body=tail or [ast.Pass()], orelse=[]))
                return out
            out.append(ast.If(test=s.test, body=body or [ast.Pass()], orelse=[x for x in orelse if not isinstance(x, ast.Pass)]))
            return out
        if isinstance(s, (ast.Try, ast.With)) and _has_continue([s]):
            return None
        out.append(s)
    return out


def _has_continue(stmts) -> bool:
    for s in stmts:
        if isinstance(s, ast.Continue):
            return True
        if isinstance(s, (ast.For, ast.While, ast.FunctionDef, ast.AsyncFunctionDef, ast.ClassDef)):
            continue
        for fld in ("body", "orelse", "finalbody"):
            b = getattr(s, fld, None)
            if isinstance(b, list) and b and isinstance(b[0], ast.stmt) and _has_continue(b):
                return True
        if isinstance(s, ast.Try):
            for h in s.handlers:
                if _has_continue(h.body):
                    return True
    return False


def _ends_with_continue(stmts) -> bool:
    return bool(stmts) and isinstance(stmts[-1], ast.Continue)


def _has_break(stmts) -> bool:
    for s in stmts:
        if isinstance(s, ast.Break):
            return True
        if isinstance(s, (ast.For, ast.While, ast.FunctionDef, ast.AsyncFunctionDef, ast.ClassDef)):
            continue
        for fld in ("body", "orelse", "finalbody"):
            b = getattr(s, fld, None)
            if isinstance(b, list) and b and isinstance(b[0], ast.stmt) and _has_break(b):
                return True
        if isinstance(s, ast.Try):
            for h in s.handlers:
                if _has_break(h.body):
                    return True
    return False


def _pure_simple(v: ast.AST) -> bool:
    if _simple(v):
        return True
    if isinstance(v, ast.UnaryOp):
        return _pure_simple(v.operand)
    if isinstance(v, ast.Tuple):
        return all(_pure_simple(e) for e in v.elts)
    return False


class LoopUnroller(ast.NodeTransformer):
    """`for a, b in ((x1, y1), (x2, y2)): body` over a literal tuple/list of at
    most 4 items whose body has no `break`: the iterations are written out,
    `continue` turned into `else`.  Only loops whose items are names,
    attributes, constants or unary operations of such (no call is duplicated or
    re-ordered) and whose targets are not rebound in the body."""

    MAX_ITEMS = 12

    def __init__(self):
        self.count = 0
        self.tables: List[Dict[str, ast.AST]] = []

    def _function(self, node):
        # locals bound exactly once to a literal tuple/list and never touched otherwise
        stores: Dict[str, int] = {}
        vals: Dict[str, ast.AST] = {}
        touched = set()
        for n in _own_walk(node):
            if isinstance(n, ast.Name) and isinstance(n.ctx, (ast.Store, ast.Del)):
                stores[n.id] = stores.get(n.id, 0) + 1
            if isinstance(n, ast.Assign) and len(n.targets) == 1 and isinstance(n.targets[0], ast.Name) and isinstance(n.value, (ast.Tuple, ast.List)):
                vals[n.targets[0].id] = n.value
            if isinstance(n, ast.Assign) and len(n.targets) == 1 and isinstance(n.targets[0], ast.Name) and isinstance(n.value, ast.Call) and isinstance(n.value.func, ast.Name) and n.value.func.id == "range" and not n.value.keywords and all(_range_arg(a_) for a_ in n.value.args):
                vals[n.targets[0].id] = n.value
            if isinstance(n, ast.Attribute) and isinstance(n.value, ast.Name) and n.attr in ("append", "extend", "insert", "remove", "pop", "sort", "reverse", "clear"):
                touched.add(n.value.id)
            if isinstance(n, (ast.AugAssign,)) and isinstance(n.target, ast.Name):
                touched.add(n.target.id)
            if isinstance(n, ast.Subscript) and isinstance(n.ctx, (ast.Store, ast.Del)) and isinstance(n.value, ast.Name):
                touched.add(n.value.id)
        params = {a.arg for a in node.args.posonlyargs + node.args.args + node.args.kwonlyargs}
        self.tables.append({k: v for k, v in vals.items() if stores.get(k) == 1 and k not in touched and k not in params})
        if not hasattr(self, "_fn"):
            self._fn = []
        self._fn.append(node)
        self.generic_visit(node)
        self._fn.pop()
        self.tables.pop()
        return node

    visit_FunctionDef = _function
    visit_AsyncFunctionDef = _function

    def visit_For(self, node: ast.For):
        self.generic_visit(node)
        it = node.iter
        if isinstance(it, ast.Name) and self.tables and it.id in self.tables[-1]:
            it = self.tables[-1][it.id]
            if isinstance(it, ast.Call):
                # `rounds = range(1, degree)` ... `for d in rounds`: the loop is read with its range
                loads = sum(1 for n in _own_walk(self._fn[-1]) if isinstance(n, ast.Name) and n.id == node.iter.id and isinstance(n.ctx, ast.Load)) if getattr(self, "_fn", None) else 2
                stable = not any(isinstance(n, ast.Name) and isinstance(n.ctx, (ast.Store, ast.Del)) and n.id in {x.id for x in ast.walk(it) if isinstance(x, ast.Name)} for n in _own_walk(self._fn[-1])) if getattr(self, "_fn", None) else False
                if loads == 1 and stable:
                    node.iter = clone_ast(it)
                    self.count += 1
                return node
        if not isinstance(it, (ast.Tuple, ast.List)) or not (1 <= len(it.elts) <= self.MAX_ITEMS) or node.orelse:
            return node
        if any(isinstance(e, ast.Starred) for e in it.elts) or not all(_pure_simple(e) for e in it.elts):
            return node
        if _has_break(node.body):
            return node
        tnames = {t.id for t in ast.walk(node.target) if isinstance(t, ast.Name)}
        if not all(isinstance(t, (ast.Name, ast.Tuple, ast.List)) for t in ast.walk(node.target) if not isinstance(t, (ast.Store, ast.Load))):
            return node
        for s in node.body:
            for n in [s] + list(_own_walk(s)):
                if isinstance(n, ast.Name) and isinstance(n.ctx, (ast.Store, ast.Del)) and n.id in tnames:
                    return node
                if isinstance(n, (ast.Lambda, ast.FunctionDef)):
                    return node  # late binding of the loop variable
        out: List[ast.stmt] = []
        for e in it.elts:
            m: Dict[str, ast.AST] = {}
            if not _bind_literal(node.target, e, m):
                return node
            body = [clone_ast(s) for s in node.body]
            body = [_Rename({}, m).visit(s) for s in body]
            if _has_continue(body):
                body = _continue_to_else(body)
                if body is None:
                    return node
            for s in body:
                _stamp(s, node)
            out.extend(body)
        self.count += 1
        return out or [ast.Pass()]


def _range_arg(a: ast.AST) -> bool:
    """bounds made of parameters, constants and arithmetic (no call, no attribute chain that may change)"""
    if isinstance(a, (ast.Name, ast.Constant)):
        return True
    if isinstance(a, ast.BinOp):
        return _range_arg(a.left) and _range_arg(a.right)
    if isinstance(a, ast.UnaryOp):
        return _range_arg(a.operand)
    return False


def _bind_literal(t: ast.AST, v: ast.AST, m: Dict[str, ast.AST]) -> bool:
    if isinstance(t, ast.Name):
        m[t.id] = v
        return True
    if isinstance(t, (ast.Tuple, ast.List)) and isinstance(v, (ast.Tuple, ast.List)) and len(t.elts) == len(v.elts):
        return all(_bind_literal(a, b, m) for a, b in zip(t.elts, v.elts))
    return False


def unroll_literal_loops(tree: ast.Module) -> int:
    u = LoopUnroller()
    u.visit(tree)
    if u.count:
        ast.fix_missing_locations(tree)
    return u.count


# ---------------------------------------------------------------- callee chosen by a branch
def _chain_leaves(node: ast.If):
    """leaf bodies of an if/elif/else chain: [(holder, field)]; None when there is no final else"""
    out = [(node, "body")]
    cur = node
    while len(cur.orelse) == 1 and isinstance(cur.orelse[0], ast.If):
        cur = cur.orelse[0]
        out.append((cur, "body"))
    if not cur.orelse:
        return None
    out.append((cur, "orelse"))
    return out


def _strip(stmts):
    return [s for s in stmts if not isinstance(s, ast.Pass) and not (isinstance(s, ast.Expr) and isinstance(s.value, ast.Constant))]


class CalleeSinker(ast.NodeTransformer):
    """`if c: f = A  elif d: f = B  else: raise ..` followed by the one statement
    that calls `f(..)` becomes the same chain with that statement in each branch
    and the chosen function written out (`x = A(..)` / `x = B(..)`)."""

    def __init__(self):
        self.count = 0

    def _function(self, node):
        self.generic_visit(node)
        loads: Dict[str, int] = {}
        for n in _own_walk(node):
            if isinstance(n, ast.Name) and isinstance(n.ctx, ast.Load):
                loads[n.id] = loads.get(n.id, 0) + 1
        self._blocks(node, loads)
        return node

    visit_FunctionDef = _function
    visit_AsyncFunctionDef = _function

    def _blocks(self, node, loads):
        for fld in ("body", "orelse", "finalbody"):
            b = getattr(node, fld, None)
            if isinstance(b, list) and b and isinstance(b[0], ast.stmt):
                setattr(node, fld, self._block(b, loads))
                for s in getattr(node, fld):
                    if not isinstance(s, (ast.FunctionDef, ast.AsyncFunctionDef, ast.ClassDef)):
                        self._blocks(s, loads)
        if isinstance(node, ast.Try):
            for h in node.handlers:
                h.body = self._block(h.body, loads)
                for s in h.body:
                    self._blocks(s, loads)

    def _block(self, stmts, loads):
        stmts = list(stmts)
        i = 0
        while i < len(stmts):
            s = stmts[i]
            if isinstance(s, ast.If):
                r = self._try(stmts, i, loads)
                if r is not None:
                    stmts = r
                    self.count += 1
                    continue
            i += 1
        return stmts

    def _try(self, stmts, i, loads):
        chain = stmts[i]
        leaves = _chain_leaves(chain)
        if leaves is None:
            return None
        fname = None
        picks = []
        for holder, fld in leaves:
            body = _strip(getattr(holder, fld))
            if body and isinstance(body[-1], ast.Raise):
                picks.append(None)
                continue
            if len(body) == 1 and isinstance(body[0], ast.Assign) and len(body[0].targets) == 1 and isinstance(body[0].targets[0], ast.Name) and isinstance(body[0].value, (ast.Name, ast.Attribute)) and _simple(body[0].value):
                nm = body[0].targets[0].id
                if fname is None:
                    fname = nm
                if nm != fname:
                    return None
                picks.append(body[0].value)
                continue
            return None
        if fname is None or loads.get(fname, 0) != 1:
            return None
        for j in range(i + 1, len(stmts)):
            t = stmts[j]
            uses = [n for n in ast.walk(t) if isinstance(n, ast.Name) and n.id == fname]
            if not uses:
                if isinstance(t, (ast.FunctionDef, ast.AsyncFunctionDef, ast.ClassDef)):
                    return None
                continue
            if not isinstance(t, (ast.Assign, ast.Expr, ast.Return, ast.AugAssign, ast.AnnAssign)) or len(uses) != 1:
                return None
            callsite = [c for c in ast.walk(t) if isinstance(c, ast.Call) and c.func is uses[0]]
            if len(callsite) != 1:
                return None
            new = clone_ast(chain)
            for (holder, fld), pick in zip(_chain_leaves(new), picks):
                if pick is None:
                    continue
                st = _Rename({}, {fname: pick}).visit(clone_ast(t))
                setattr(holder, fld, [st])
            return stmts[:i] + stmts[i + 1 : j] + [new] + stmts[j + 1 :]
        return None


def sink_selected_callees(tree: ast.Module) -> int:
    c = CalleeSinker()
    c.visit(tree)
    if c.count:
        ast.fix_missing_locations(tree)
    return c.count


# ---------------------------------------------------------------- constant tests after substitution
def _const_truth(e: ast.AST) -> Optional[bool]:
    """truth of a test made of constants only (after a constant argument was
    substituted for a parameter): `'_p' is None`, `not None`, `3 == 3`"""
    if isinstance(e, ast.Constant):
        return bool(e.value)
    if isinstance(e, ast.UnaryOp) and isinstance(e.op, ast.Not):
        t = _const_truth(e.operand)
        return None if t is None else (not t)
    if isinstance(e, ast.BoolOp):
        vals = [_const_truth(v) for v in e.values]
        if isinstance(e.op, ast.And):
            if any(v is False for v in vals):
                return False
            return True if all(v is True for v in vals) else None
        if any(v is True for v in vals):
            return True
        return False if all(v is False for v in vals) else None
    if isinstance(e, ast.Compare) and len(e.ops) == 1 and isinstance(e.left, ast.Constant) and isinstance(e.comparators[0], ast.Constant):
        a, b, op = e.left.value, e.comparators[0].value, e.ops[0]
        if isinstance(op, ast.Is):
            return (a is None and b is None) if (a is None or b is None) else None
        if isinstance(op, ast.IsNot):
            return not (a is None and b is None) if (a is None or b is None) else None
        if isinstance(op, ast.Eq):
            return a == b
        if isinstance(op, ast.NotEq):
            return a != b
    return None


class _FoldExpr(ast.NodeTransformer):
    def visit_IfExp(self, n):
        self.generic_visit(n)
        t = _const_truth(n.test)
        if t is True:
            return n.body
        if t is False:
            return n.orelse
        return n


def _simplify_test(e: ast.AST) -> ast.AST:
    """in a test position only the truth matters: `True and x` is `x`, `False or x` is `x`,
    constant operands that do not decide the result are dropped"""
    if isinstance(e, ast.UnaryOp) and isinstance(e.op, ast.Not):
        e.operand = _simplify_test(e.operand)
        return e
    if isinstance(e, ast.BoolOp):
        vals = [_simplify_test(v) for v in e.values]
        neutral = True if isinstance(e.op, ast.And) else False
        kept = [v for v in vals if _const_truth(v) is not neutral]
        if not kept:
            return ast.copy_location(ast.Constant(neutral), e)
        if len(kept) == 1:
            return kept[0]
        e.values = kept
    return e


def _fold_block(stmts: List[ast.stmt]) -> List[ast.stmt]:
    out: List[ast.stmt] = []
    for s in stmts:
        if isinstance(s, (ast.FunctionDef, ast.AsyncFunctionDef, ast.ClassDef)):
            out.append(s)
            continue
        if isinstance(s, (ast.If, ast.While)) and _const_truth(s.test) is None:
            s.test = _simplify_test(s.test)
        if isinstance(s, ast.If):
            t = _const_truth(s.test)
            if t is True:
                out.extend(_fold_block(s.body))
                continue
            if t is False:
                out.extend(_fold_block(s.orelse))
                continue
        for fld in ("body", "orelse", "finalbody"):
            b = getattr(s, fld, None)
            if isinstance(b, list) and b and isinstance(b[0], ast.stmt):
                nb = _fold_block(b)
                setattr(s, fld, nb if nb or fld != "body" else [ast.Pass()])
        if isinstance(s, ast.Try):
            for h in s.handlers:
                h.body = _fold_block(h.body) or [ast.Pass()]
        out.append(_FoldExpr().visit(s))
    return out or [ast.Pass()]


# ---------------------------------------------------------------- line numbers after a transformation
def renumber(tree: ast.Module):
    """After statements were moved or expanded, line numbers no longer follow
    the document order the rules rely on (`a.lineno < b.lineno`).  Every
    statement gets a fresh consecutive number in document order (all nodes of a
    simple statement share it); the line to show in reports is kept in
    `_orig_lineno`."""
    counter = [0]

    def stamp_expr(e: ast.AST, ln: int):
        for n in ast.walk(e):
            if hasattr(n, "lineno") or isinstance(n, (ast.expr, ast.arg, ast.keyword, ast.alias, ast.ExceptHandler)):
                if not hasattr(n, "_orig_lineno"):
                    n._orig_lineno = getattr(n, "lineno", ln)  # type: ignore[attr-defined]
                n.lineno = ln
                n.end_lineno = ln

    def visit_block(stmts):
        for s in stmts:
            counter[0] += 1
            ln = counter[0]
            if not hasattr(s, "_orig_lineno"):
                s._orig_lineno = getattr(s, "lineno", ln)  # type: ignore[attr-defined]
            s.lineno = ln
            s.end_lineno = ln
            for fld, val in ast.iter_fields(s):
                if fld in ("body", "orelse", "finalbody") and isinstance(val, list) and val and isinstance(val[0], ast.stmt):
                    continue
                if fld == "handlers":
                    continue
                for x in (val if isinstance(val, list) else [val]):
                    if isinstance(x, ast.AST):
                        stamp_expr(x, ln)
            for fld in ("body", "orelse"):
                b = getattr(s, fld, None)
                if isinstance(b, list) and b and isinstance(b[0], ast.stmt):
                    visit_block(b)
            if isinstance(s, ast.Try):
                for h in s.handlers:
                    counter[0] += 1
                    h._orig_lineno = getattr(h, "lineno", counter[0])  # type: ignore[attr-defined]
                    h.lineno = counter[0]
                    if h.type is not None:
                        stamp_expr(h.type, counter[0])
                    visit_block(h.body)
                visit_block(s.finalbody)
            s.end_lineno = counter[0]

    visit_block(tree.body)


# ---------------------------------------------------------------- default, then conditional override
def _pure_default(v: ast.AST) -> bool:
    if isinstance(v, (ast.Constant, ast.Name)):
        return True
    if isinstance(v, (ast.List, ast.Tuple, ast.Set)):
        return all(_pure_default(e) for e in v.elts)
    if isinstance(v, ast.Dict):
        return all(k is not None and _pure_default(k) and _pure_default(x) for k, x in zip(v.keys, v.values))
    if isinstance(v, ast.Attribute):
        return _pure_default(v.value)
    if isinstance(v, ast.UnaryOp):
        return _pure_default(v.operand)
    return False


class DefaultThenOverride(ast.NodeTransformer):
    """`x = A` immediately followed by `if c: ... x = B ...` (no else) is read as
    `if c: ... x = B ... else: x = A` when A is a constant/name/display, x does
    not occur in c and the branch binds x before reading it"""

    def __init__(self):
        self.count = 0

    def _block(self, stmts):
        out = []
        i = 0
        while i < len(stmts):
            s = stmts[i]
            nxt = stmts[i + 1] if i + 1 < len(stmts) else None
            if (
                isinstance(s, ast.Assign)
                and len(s.targets) == 1
                and isinstance(s.targets[0], ast.Name)
                and _pure_default(s.value)
                and isinstance(nxt, ast.If)
                and not nxt.orelse
            ):
                x = s.targets[0].id
                in_test = any(isinstance(n, ast.Name) and n.id == x for n in ast.walk(nxt.test))
                in_value = any(isinstance(n, ast.Name) and n.id == x for n in ast.walk(s.value))
                binds = [k for k, b in enumerate(nxt.body) if isinstance(b, ast.Assign) and any(isinstance(t, ast.Name) and t.id == x for t in b.targets)]
                reads_before = False
                if binds:
                    for b in nxt.body[: binds[0]]:
                        if any(isinstance(n, ast.Name) and n.id == x for n in ast.walk(b)):
                            reads_before = True
                    fb = nxt.body[binds[0]]
                    if any(isinstance(n, ast.Name) and n.id == x and isinstance(n.ctx, ast.Load) for n in ast.walk(fb.value)):
                        reads_before = True
                if binds and not in_test and not in_value and not reads_before:
                    new = ast.If(test=nxt.test, body=nxt.body, orelse=[s])
                    ast.copy_location(new, nxt)
                    out.append(new)
                    self.count += 1
                    i += 2
                    continue
            out.append(s)
            i += 1
        return out

    def generic_visit(self, node):
        super().generic_visit(node)
        for fld in ("body", "orelse", "finalbody"):
            b = getattr(node, fld, None)
            if isinstance(b, list) and b and isinstance(b[0], ast.stmt):
                setattr(node, fld, self._block(b))
        return node


def default_then_override(tree: ast.Module) -> int:
    d = DefaultThenOverride()
    d.visit(tree)
    if d.count:
        ast.fix_missing_locations(tree)
    return d.count


# ---------------------------------------------------------------- literal call forms
class LiteralForms(ast.NodeTransformer):
    """source normal forms of constructions that only re-spell a literal:

    * `dict(a=x, b=y)` (keywords only, `dict` not rebound)      ->  `{"a": x, "b": y}`
    * `f(.., **kw)` where the local `kw` is bound once to a dict display with
      constant string keys and simple values, never touched otherwise and used only
      there                                                       ->  `f(.., a=x, b=y)`
    * `setattr(o, "name", v)` as a statement, constant identifier ->  `o.name = v`
    * `getattr(o, "name")` (two arguments, constant identifier)  ->  `o.name`
    """

    def __init__(self):
        self.count = 0
        self.tables: List[Dict[str, ast.Dict]] = []
        self.drop: List[set] = []

    def _function(self, node):
        stores: Dict[str, int] = {}
        loads: Dict[str, int] = {}
        star_uses: Dict[str, int] = {}
        vals: Dict[str, ast.AST] = {}
        for n in _own_walk(node):
            if isinstance(n, ast.Name):
                if isinstance(n.ctx, (ast.Store, ast.Del)):
                    stores[n.id] = stores.get(n.id, 0) + 1
                else:
                    loads[n.id] = loads.get(n.id, 0) + 1
            if isinstance(n, ast.Assign) and len(n.targets) == 1 and isinstance(n.targets[0], ast.Name):
                v = _as_dict_display(n.value)
                if v is not None:
                    vals[n.targets[0].id] = v
            if isinstance(n, ast.Call):
                for k in n.keywords:
                    if k.arg is None and isinstance(k.value, ast.Name):
                        star_uses[k.value.id] = star_uses.get(k.value.id, 0) + 1
        params = {a.arg for a in node.args.posonlyargs + node.args.args + node.args.kwonlyargs}
        table = {}
        for k, v in vals.items():
            if stores.get(k) == 1 and loads.get(k, 0) == 1 and star_uses.get(k, 0) == 1 and k not in params:
                # the values must still mean the same at the call: names not rebound in the function after
                names = {x.id for e in v.values for x in ast.walk(e) if isinstance(x, ast.Name)}
                if all(stores.get(nm, 0) == 0 or nm in params and stores.get(nm, 0) == 0 for nm in names):
                    table[k] = v
        # locals bound once to a tuple/list display of simple values and used once as `*name`
        seqs = {}
        star_pos: Dict[str, int] = {}
        for n in _own_walk(node):
            if isinstance(n, ast.Call):
                for a in n.args:
                    if isinstance(a, ast.Starred) and isinstance(a.value, ast.Name):
                        star_pos[a.value.id] = star_pos.get(a.value.id, 0) + 1
        for n in _own_walk(node):
            if isinstance(n, ast.Assign) and len(n.targets) == 1 and isinstance(n.targets[0], ast.Name) and isinstance(n.value, (ast.Tuple, ast.List)) and n.value.elts and all(_pure_simple(e) for e in n.value.elts):
                k = n.targets[0].id
                if stores.get(k) == 1 and loads.get(k, 0) == 1 and star_pos.get(k, 0) == 1 and k not in params:
                    names = {x.id for e in n.value.elts for x in ast.walk(e) if isinstance(x, ast.Name)}
                    last_store = {}
                    for m in _own_walk(node):
                        if isinstance(m, ast.Name) and isinstance(m.ctx, (ast.Store, ast.Del)) and m.id in names:
                            last_store[m.id] = max(last_store.get(m.id, 0), getattr(m, "lineno", 10 ** 9))
                    in_loop = any(isinstance(m, (ast.For, ast.While)) and any(x is n for x in ast.walk(m)) for m in _own_walk(node))
                    if not in_loop and all(last_store.get(nm, 0) < n.lineno for nm in names):
                        seqs[k] = n.value
        if not hasattr(self, "seqs"):
            self.seqs = []
        self.seqs.append(seqs)
        self.tables.append(table)
        self.drop.append(set())
        self.generic_visit(node)
        dropped = self.drop.pop()
        self.tables.pop()
        self.seqs.pop()
        if dropped:
            _remove_bindings(node, dropped)
        return node

    visit_FunctionDef = _function
    visit_AsyncFunctionDef = _function

    # first parameter of well-known external calls: given by keyword it is the positional one
    FIRST_PARAM = {"DataFrame": "data", "Series": "data", "concat": "objs", "to_dict": "orient", "hstack": "tup", "vstack": "tup", "asarray": "a", "sort": "a", "argsort": "a", "unique": "ar", "zeros": "shape", "empty": "shape", "ones": "shape", "full": "shape", "masked_array": "data", "MaskedArray": "data"}

    def visit_Call(self, node: ast.Call):
        self.generic_visit(node)
        tail = node.func.attr if isinstance(node.func, ast.Attribute) else (node.func.id if isinstance(node.func, ast.Name) else "")
        if tail == "MaskedArray" and isinstance(node.func, ast.Attribute) and isinstance(node.func.value, (ast.Attribute, ast.Name)) and (node.func.value.attr if isinstance(node.func.value, ast.Attribute) else node.func.value.id) == "ma":
            # numpy.ma.masked_array is numpy.ma.MaskedArray (one object, two names)
            node.func.attr = "masked_array"
            self.count += 1
        fp = self.FIRST_PARAM.get(tail)
        if fp is not None and not node.args and any(k.arg == fp for k in node.keywords):
            first = next(k for k in node.keywords if k.arg == fp)
            node.args = [first.value]
            node.keywords = [k for k in node.keywords if k is not first]
            self.count += 1
        if isinstance(node.func, ast.Name) and node.func.id == "dict" and not node.args and node.keywords:
            self.count += 1
            return ast.copy_location(ast.Dict(keys=[(ast.Constant(k.arg) if k.arg is not None else None) for k in node.keywords], values=[k.value for k in node.keywords]), node)
        if isinstance(node.func, ast.Name) and node.func.id == "getattr" and len(node.args) == 2 and not node.keywords and isinstance(node.args[1], ast.Constant) and isinstance(node.args[1].value, str) and node.args[1].value.isidentifier():
            self.count += 1
            return ast.copy_location(ast.Attribute(value=node.args[0], attr=node.args[1].value, ctx=ast.Load()), node)
        if getattr(self, "seqs", None) and self.seqs[-1] and any(isinstance(a, ast.Starred) and isinstance(a.value, ast.Name) and a.value.id in self.seqs[-1] for a in node.args):
            new_args = []
            for a in node.args:
                if isinstance(a, ast.Starred) and isinstance(a.value, ast.Name) and a.value.id in self.seqs[-1]:
                    new_args += [clone_ast(e) for e in self.seqs[-1][a.value.id].elts]
                    self.drop[-1].add(a.value.id)
                else:
                    new_args.append(a)
            node.args = new_args
            self.count += 1
        if self.tables and any(k.arg is None and isinstance(k.value, ast.Name) and k.value.id in self.tables[-1] for k in node.keywords):
            kws = []
            for k in node.keywords:
                if k.arg is None and isinstance(k.value, ast.Name) and k.value.id in self.tables[-1]:
                    d = self.tables[-1][k.value.id]
                    given = {x.arg for x in node.keywords if x.arg is not None}
                    if any(kk is not None and kk.value in given for kk in d.keys):
                        return node
                    for kk, vv in zip(d.keys, d.values):
                        kws.append(ast.keyword(arg=(kk.value if kk is not None else None), value=clone_ast(vv)))
                    self.drop[-1].add(k.value.id)
                else:
                    kws.append(k)
            node.keywords = kws
            self.count += 1
        return node

    def visit_DictComp(self, node: ast.DictComp):
        self.generic_visit(node)
        if len(node.generators) == 1 and not node.generators[0].ifs and isinstance(node.generators[0].target, ast.Name) and isinstance(node.generators[0].iter, (ast.Tuple, ast.List)) and node.generators[0].iter.elts and all(isinstance(e, ast.Name) for e in node.generators[0].iter.elts):
            v = node.generators[0].target.id
            if isinstance(node.value, ast.Name) and node.value.id == v and isinstance(node.key, ast.Attribute) and node.key.attr == "__name__" and isinstance(node.key.value, ast.Name) and node.key.value.id == v:
                # a table of functions by their own names (the names of local defs are the def names)
                self.count += 1
                return ast.copy_location(ast.Dict(keys=[ast.Constant(e.id) for e in node.generators[0].iter.elts], values=[clone_ast(e) for e in node.generators[0].iter.elts]), node)
        return node

    def visit_Expr(self, node: ast.Expr):
        self.generic_visit(node)
        c = node.value
        # D.setdefault(k, v) as a statement, v free of effects: if k not in D: D[k] = v
        if isinstance(c, ast.Call) and isinstance(c.func, ast.Attribute) and c.func.attr == "setdefault" and len(c.args) == 2 and not c.keywords and isinstance(c.func.value, ast.Name) and _simple(c.args[0]) and (_simple(c.args[1]) or (isinstance(c.args[1], ast.Call) and isinstance(c.args[1].func, ast.Name) and c.args[1].func.id == "len" and len(c.args[1].args) == 1 and _simple(c.args[1].args[0]))):
            self.count += 1
            D, k, v = c.func.value, c.args[0], c.args[1]
            new = ast.If(test=ast.Compare(left=clone_ast(k), ops=[ast.NotIn()], comparators=[clone_ast(D)]), body=[ast.Assign(targets=[ast.Subscript(value=clone_ast(D), slice=clone_ast(k), ctx=ast.Store())], value=v)], orelse=[])
            return ast.copy_location(new, node)
        # D.update(k=v, ..) / D.update({"k": v, ..}) as a statement on a local name: D["k"] = v; ..
        if isinstance(c, ast.Call) and isinstance(c.func, ast.Attribute) and c.func.attr == "update" and isinstance(c.func.value, ast.Name):
            pairs = None
            if not c.args and c.keywords and all(k.arg is not None for k in c.keywords):
                pairs = [(ast.Constant(k.arg), k.value) for k in c.keywords]
            elif len(c.args) == 1 and not c.keywords and isinstance(c.args[0], ast.Dict) and c.args[0].keys and all(isinstance(k, ast.Constant) for k in c.args[0].keys):
                pairs = list(zip(c.args[0].keys, c.args[0].values))
            if pairs and len(pairs) <= 8:
                # the values are evaluated before any store: they must not read D
                D = c.func.value.id
                if not any(isinstance(n, ast.Name) and n.id == D for _, v in pairs for n in ast.walk(v)):
                    self.count += 1
                    out = [ast.copy_location(ast.Assign(targets=[ast.Subscript(value=ast.Name(id=D, ctx=ast.Load()), slice=k, ctx=ast.Store())], value=v), node) for k, v in pairs]
                    for o in out:
                        ast.fix_missing_locations(o)
                    return out
        if isinstance(c, ast.Call) and isinstance(c.func, ast.Name) and c.func.id == "setattr" and len(c.args) == 3 and not c.keywords and isinstance(c.args[1], ast.Constant) and isinstance(c.args[1].value, str) and c.args[1].value.isidentifier():
            self.count += 1
            new = ast.Assign(targets=[ast.Attribute(value=c.args[0], attr=c.args[1].value, ctx=ast.Store())], value=c.args[2])
            return ast.copy_location(new, node)
        return node


def _as_dict_display(v: ast.AST) -> Optional[ast.Dict]:
    """a dict display / dict(k=v) with constant identifier keys and simple values"""
    if isinstance(v, ast.Call) and isinstance(v.func, ast.Name) and v.func.id == "dict" and not v.args and v.keywords:
        v = ast.Dict(keys=[(ast.Constant(k.arg) if k.arg is not None else None) for k in v.keywords], values=[k.value for k in v.keywords])
    if isinstance(v, ast.Dict) and v.values and all(k is None or (isinstance(k, ast.Constant) and isinstance(k.value, str) and k.value.isidentifier()) for k in v.keys) and all(_pure_simple(e) for e in v.values):
        return v
    return None


def _remove_bindings(fn: ast.AST, names: set) -> None:
    """drop `name = <display>` statements of locals that were spliced into their only use"""
    for holder in ast.walk(fn):
        for fld in ("body", "orelse", "finalbody"):
            seq = getattr(holder, fld, None)
            if isinstance(seq, list):
                new = [s for s in seq if not (isinstance(s, ast.Assign) and len(s.targets) == 1 and isinstance(s.targets[0], ast.Name) and s.targets[0].id in names)]
                if len(new) != len(seq):
                    seq[:] = new or [ast.Pass()]


def literal_forms(tree: ast.Module) -> int:
    t = LiteralForms()
    t.visit(tree)
    if t.count:
        ast.fix_missing_locations(tree)
    return t.count


# ---------------------------------------------------------------- module-level literal tables
def fold_module_tables(tree: ast.Module) -> int:
    """`TABLE['key']` where TABLE is a module-level name bound once to a dict display with
    constant keys and simple values (names, attributes, constants), never mutated or rebound
    in the module: read as the value itself (a dispatch table spelt out)."""
    tables: Dict[str, ast.Dict] = {}
    stores: Dict[str, int] = {}
    for n in ast.walk(tree):
        if isinstance(n, ast.Name) and isinstance(n.ctx, (ast.Store, ast.Del)):
            stores[n.id] = stores.get(n.id, 0) + 1
    for st in tree.body:
        if isinstance(st, ast.Assign) and len(st.targets) == 1 and isinstance(st.targets[0], ast.Name) and isinstance(st.value, ast.Dict):
            d = st.value
            if d.keys and all(isinstance(k, ast.Constant) for k in d.keys) and all(_simple(v) for v in d.values) and stores.get(st.targets[0].id) == 1:
                tables[st.targets[0].id] = d
    if not tables:
        return 0
    # mutated tables are left alone
    for n in ast.walk(tree):
        if isinstance(n, ast.Subscript) and isinstance(n.ctx, (ast.Store, ast.Del)) and isinstance(n.value, ast.Name):
            tables.pop(n.value.id, None)
        if isinstance(n, ast.Attribute) and isinstance(n.value, ast.Name) and n.attr in ("update", "pop", "clear", "setdefault", "popitem", "__setitem__"):
            tables.pop(n.value.id, None)
        if isinstance(n, (ast.Global, ast.Nonlocal)):
            for nm in n.names:
                tables.pop(nm, None)
    if not tables:
        return 0

    class _Fold(ast.NodeTransformer):
        count = 0

        def visit_Subscript(self, node):
            self.generic_visit(node)
            if isinstance(node.ctx, ast.Load) and isinstance(node.value, ast.Name) and node.value.id in tables and isinstance(node.slice, ast.Constant):
                d = tables[node.value.id]
                for k, v in zip(d.keys, d.values):
                    if k.value == node.slice.value and type(k.value) is type(node.slice.value):
                        _Fold.count += 1
                        return ast.copy_location(clone_ast(v), node)
            return node

    _Fold.count = 0
    _Fold().visit(tree)
    if _Fold.count:
        ast.fix_missing_locations(tree)
    return _Fold.count


# ---------------------------------------------------------------- helpers inherited from another module
def adopt_inherited_helpers(modules: List[Tuple[str, ast.Module]], known: Set[str]) -> int:
    """A private method that the rule tables do not know, defined in a base class of ANOTHER
    module of the package and not overridden, is copied into the subclass, so that the
    module-local expansion of unknown helpers reads `self._helper(..)` there as well.  Only
    helpers that refer to nothing but their parameters, attributes of self and builtins are
    copied (the copy lives in another module's namespace)."""
    import builtins as _b

    classes: Dict[str, List[Tuple[str, ast.ClassDef]]] = {}
    for mname, tree in modules:
        for n in tree.body:
            if isinstance(n, ast.ClassDef):
                classes.setdefault(n.name, []).append((mname, n))
    count = 0
    for mname, tree in modules:
        for cls in [n for n in tree.body if isinstance(n, ast.ClassDef)]:
            own = {m.name for m in cls.body if isinstance(m, (ast.FunctionDef, ast.AsyncFunctionDef))}
            seen_bases = set()
            work = [b.id if isinstance(b, ast.Name) else (b.attr if isinstance(b, ast.Attribute) else None) for b in cls.bases]
            while work:
                bn = work.pop(0)
                if bn is None or bn in seen_bases or bn not in classes or len(classes[bn]) != 1:
                    continue
                seen_bases.add(bn)
                bmod, bcls = classes[bn][0]
                work += [b.id if isinstance(b, ast.Name) else (b.attr if isinstance(b, ast.Attribute) else None) for b in bcls.bases]
                same = bmod == mname
                for m in bcls.body:
                    if not isinstance(m, ast.FunctionDef) or not m.name.startswith("_") or m.name.startswith("__") or m.name in own:
                        continue
                    if f"{bmod}:{bn}.{m.name}" in known or m.decorator_list:
                        continue
                    params = {a.arg for a in m.args.posonlyargs + m.args.args + m.args.kwonlyargs}
                    local = {x.id for x in ast.walk(m) if isinstance(x, ast.Name) and isinstance(x.ctx, ast.Store)}
                    free = {x.id for x in ast.walk(m) if isinstance(x, ast.Name) and isinstance(x.ctx, ast.Load)} - params - local
                    if not same and any(not hasattr(_b, f) for f in free):
                        continue
                    cls.body.append(clone_ast(m))
                    own.add(m.name)
                    count += 1
    return count


# ---------------------------------------------------------------- super()
def explicit_super(tree: ast.Module) -> int:
    """`super().m(a, ..)` in an instance method of a class with exactly one base `B` is
    `B.m(self, a, ..)`: the spelling the rules (and most of the package) use."""
    count = 0
    for cls in [n for n in ast.walk(tree) if isinstance(n, ast.ClassDef)]:
        if len(cls.bases) != 1 or not isinstance(cls.bases[0], (ast.Name, ast.Attribute)) or cls.keywords:
            continue
        base = cls.bases[0]
        for m in cls.body:
            if not isinstance(m, ast.FunctionDef) or not m.args.args:
                continue
            if any(ast.unparse(d) in ("staticmethod", "classmethod") for d in m.decorator_list):
                continue
            me = m.args.args[0].arg
            for c in ast.walk(m):
                if isinstance(c, ast.Call) and isinstance(c.func, ast.Attribute) and isinstance(c.func.value, ast.Call) and isinstance(c.func.value.func, ast.Name) and c.func.value.func.id == "super" and not c.func.value.args and not c.func.value.keywords:
                    # not inside a nested function or class (super() there means something else)
                    c.func.value = ast.copy_location(clone_ast(base), c.func.value)
                    c.args = [ast.copy_location(ast.Name(id=me, ctx=ast.Load()), c)] + list(c.args)
                    count += 1
    if count:
        ast.fix_missing_locations(tree)
    return count
