"""E-AFF: exact linear arithmetic over the source's own index expressions.

A `Lin` is  c0 + sum_i c_i * s_i  with Fraction coefficients; symbols are the
source texts of names / attribute chains / subscripts (`y.shape[0]`,
`model.past`) or canonical products of them (`a*b`, factors sorted).  Products
of two linear forms are expanded when the result stays a polynomial whose
monomials can be named; anything else raises LinErr (the caller then reports
UNKNOWN, never a verdict).
"""

from __future__ import annotations

import ast
from fractions import Fraction
from typing import Dict, Optional


class LinErr(Exception):
    pass


class Lin:
    __slots__ = ("c", "t")

    def __init__(self, c=0, t: Optional[Dict[str, Fraction]] = None):
        self.c = Fraction(c)
        self.t = {k: Fraction(v) for k, v in (t or {}).items() if v != 0}

    @staticmethod
    def sym(name: str) -> "Lin":
        return Lin(0, {name: Fraction(1)})

    def __add__(self, o):
        o = _lin(o)
        t = dict(self.t)
        for k, v in o.t.items():
            t[k] = t.get(k, 0) + v
        return Lin(self.c + o.c, t)

    def __neg__(self):
        return Lin(-self.c, {k: -v for k, v in self.t.items()})

    def __sub__(self, o):
        return self + (-_lin(o))

    def scale(self, f) -> "Lin":
        f = Fraction(f)
        return Lin(self.c * f, {k: v * f for k, v in self.t.items()})

    def __mul__(self, o):
        o = _lin(o)
        if not self.t:
            return o.scale(self.c)
        if not o.t:
            return self.scale(o.c)
        # polynomial product, monomials named by their sorted factors
        out = Lin(self.c * o.c)
        for k, v in self.t.items():
            out = out + Lin(0, {k: v * o.c})
        for k, v in o.t.items():
            out = out + Lin(0, {k: v * self.c})
        for k1, v1 in self.t.items():
            for k2, v2 in o.t.items():
                name = "*".join(sorted(k1.split("*") + k2.split("*")))
                out = out + Lin(0, {name: v1 * v2})
        return out

    def is_zero(self) -> bool:
        return self.c == 0 and not self.t

    def is_const(self) -> bool:
        return not self.t

    def __eq__(self, o):
        o = _lin(o)
        return (self - o).is_zero()

    def __hash__(self):
        return hash((self.c, tuple(sorted(self.t.items()))))

    def subs(self, env: Dict[str, "Lin"]) -> "Lin":
        out = Lin(self.c)
        for k, v in self.t.items():
            factors = k.split("*")
            term = Lin(v)
            for f in factors:
                term = term * (env[f] if f in env else Lin.sym(f))
            out = out + term
        return out

    def __repr__(self):
        parts = []
        for k, v in sorted(self.t.items()):
            if v == 1:
                parts.append(f"+{k}")
            elif v == -1:
                parts.append(f"-{k}")
            else:
                parts.append(f"{'+' if v > 0 else ''}{v}*{k}")
        if self.c != 0 or not parts:
            parts.append(f"{'+' if self.c >= 0 else ''}{self.c}")
        s = "".join(parts)
        return s[1:] if s.startswith("+") else s


def _lin(x) -> Lin:
    if isinstance(x, Lin):
        return x
    return Lin(x)


def lin(e: ast.AST, env: Optional[Dict[str, Lin]] = None) -> Lin:
    """linear form of an index expression; `env` maps local names to forms."""
    env = env or {}
    if isinstance(e, ast.Constant):
        if isinstance(e.value, bool) or not isinstance(e.value, (int,)):
            raise LinErr(f"non-integer constant {e.value!r}")
        return Lin(e.value)
    if isinstance(e, ast.Name):
        if e.id in env:
            return env[e.id]
        return Lin.sym(e.id)
    if isinstance(e, (ast.Attribute, ast.Subscript)):
        try:
            txt = ast.unparse(e)
        except Exception:
            raise LinErr("unparse")
        if txt in env:
            return env[txt]
        return Lin.sym(txt)
    if isinstance(e, ast.UnaryOp) and isinstance(e.op, ast.USub):
        return -lin(e.operand, env)
    if isinstance(e, ast.UnaryOp) and isinstance(e.op, ast.UAdd):
        return lin(e.operand, env)
    if isinstance(e, ast.BinOp):
        if isinstance(e.op, ast.Add):
            return lin(e.left, env) + lin(e.right, env)
        if isinstance(e.op, ast.Sub):
            return lin(e.left, env) - lin(e.right, env)
        if isinstance(e.op, ast.Mult):
            return lin(e.left, env) * lin(e.right, env)
        raise LinErr(f"operator {type(e.op).__name__}")
    if isinstance(e, ast.Call) and isinstance(e.func, ast.Name) and e.func.id == "len" and len(e.args) == 1:
        txt = f"len({ast.unparse(e.args[0])})"
        return env.get(txt, Lin.sym(txt))
    if isinstance(e, ast.Call) and isinstance(e.func, ast.Name) and e.func.id == "int" and len(e.args) == 1:
        return lin(e.args[0], env)
    raise LinErr(f"expression {type(e).__name__}")


def slice_bounds(sl: ast.AST, length: Lin, env: Optional[Dict[str, Lin]] = None):
    """(lower, upper) linear forms of a slice over an axis of size `length`
    (None bounds resolved; negative literal bounds resolved against length)."""
    if not isinstance(sl, ast.Slice):
        raise LinErr("not a slice")
    if sl.step is not None:
        raise LinErr("stepped slice")
    lo = lin(sl.lower, env) if sl.lower is not None else Lin(0)
    hi = lin(sl.upper, env) if sl.upper is not None else length
    if lo.is_const() and lo.c < 0:
        lo = length + lo
    if hi.is_const() and hi.c < 0:
        hi = length + hi
    return lo, hi
