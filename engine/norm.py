"""E-NORM: normalisation of ASTs for sibling-agreement rules.

* alpha-renaming of local names (in order of first occurrence),
* canonical comparison forms  (a > b  ==  b < a ;  not (a <= b)  ==  a > b ;
  ~(a <= b) for masks),
* commutative operand sorting for + * and or & |,
* docstrings removed, import aliases resolved by an optional mapping.
"""

from __future__ import annotations

import ast
from engine.util import clone_ast
import copy
from typing import Dict, Iterable, List, Optional, Set

_FLIP = {ast.Gt: ast.Lt, ast.GtE: ast.LtE}
_NEG = {ast.Lt: ast.GtE, ast.LtE: ast.Gt, ast.Gt: ast.LtE, ast.GtE: ast.Lt, ast.Eq: ast.NotEq, ast.NotEq: ast.Eq, ast.Is: ast.IsNot, ast.IsNot: ast.Is, ast.In: ast.NotIn, ast.NotIn: ast.In}


class _Canon(ast.NodeTransformer):
    def visit_UnaryOp(self, node):
        self.generic_visit(node)
        if isinstance(node.op, (ast.Not, ast.Invert)) and isinstance(node.operand, ast.Compare) and len(node.operand.ops) == 1:
            c = node.operand
            op = type(c.ops[0])
            if op in _NEG:
                return self.visit(ast.Compare(left=c.left, ops=[_NEG[op]()], comparators=c.comparators))
        return node

    def visit_Compare(self, node):
        self.generic_visit(node)
        if len(node.ops) == 1 and type(node.ops[0]) in _FLIP:
            return ast.Compare(left=node.comparators[0], ops=[_FLIP[type(node.ops[0])]()], comparators=[node.left])
        if len(node.ops) == 1 and isinstance(node.ops[0], (ast.Eq, ast.NotEq)):
            a, b = node.left, node.comparators[0]
            if ast.dump(a) > ast.dump(b):
                return ast.Compare(left=b, ops=node.ops, comparators=[a])
        return node

    def visit_BinOp(self, node):
        self.generic_visit(node)
        if isinstance(node.op, (ast.Add, ast.Mult, ast.BitAnd, ast.BitOr)):
            terms = _flatten(node, type(node.op))
            terms.sort(key=ast.dump)
            out = terms[0]
            for t in terms[1:]:
                out = ast.BinOp(left=out, op=type(node.op)(), right=t)
            return out
        return node

    def visit_BoolOp(self, node):
        self.generic_visit(node)
        node.values = sorted(node.values, key=ast.dump)
        return node


def _flatten(node, op) -> List[ast.AST]:
    if isinstance(node, ast.BinOp) and isinstance(node.op, op):
        return _flatten(node.left, op) + _flatten(node.right, op)
    return [node]


def strip_doc(node):
    for n in ast.walk(node):
        if isinstance(n, (ast.FunctionDef, ast.AsyncFunctionDef, ast.ClassDef, ast.Module)) and n.body:
            b = n.body[0]
            if isinstance(b, ast.Expr) and isinstance(b.value, ast.Constant) and isinstance(b.value.value, str):
                n.body = n.body[1:] or [ast.Pass()]
    return node


def canon(node: ast.AST, rename: bool = True, keep: Iterable[str] = (), mapping: Optional[Dict[str, str]] = None) -> ast.AST:
    """canonical deep copy of `node`"""
    n = clone_ast(node)
    n = strip_doc(n)
    n = _Canon().visit(n)
    ast.fix_missing_locations(n)
    if rename:
        keep = set(keep)
        table: Dict[str, str] = dict(mapping or {})
        # only rename names that are bound somewhere in the fragment
        bound: Set[str] = set()
        for x in ast.walk(n):
            if isinstance(x, ast.Name) and isinstance(x.ctx, (ast.Store, ast.Del)):
                bound.add(x.id)
            elif isinstance(x, ast.arg):
                bound.add(x.arg)
        order = []
        for x in _ordered(n):
            if isinstance(x, ast.Name) and x.id in bound and x.id not in keep and x.id not in table:
                table[x.id] = f"_v{len(table)}"
            elif isinstance(x, ast.arg) and x.arg in bound and x.arg not in keep and x.arg not in table:
                table[x.arg] = f"_v{len(table)}"
        for x in ast.walk(n):
            if isinstance(x, ast.Name) and x.id in table:
                x.id = table[x.id]
            elif isinstance(x, ast.arg) and x.arg in table:
                x.arg = table[x.arg]
    return n


def _ordered(n):
    """nodes in source (pre-order, field) order"""
    yield n
    for c in ast.iter_child_nodes(n):
        yield from _ordered(c)


def dump(node: ast.AST, **kw) -> str:
    return ast.dump(canon(node, **kw), annotate_fields=False, include_attributes=False)


def same_modulo_names(a: ast.AST, b: ast.AST, keep: Iterable[str] = ()) -> bool:
    return dump(a, keep=keep) == dump(b, keep=keep)


def text(node: ast.AST, **kw) -> str:
    try:
        return ast.unparse(canon(node, **kw))
    except Exception:
        return dump(node, **kw)
