"""E-SRC: source tables for the repository under analysis.

* a tiny VFS (working tree + in-memory overlay, used by the self-test),
* module / class / function tables,
* import resolution (local name -> dotted target), following package
  re-exports inside the repository,
* MRO over repository classes, external bases kept as dotted names.

Anchors are always located by semantic query (module, class, function name),
never by line number.
"""

from __future__ import annotations

import ast
import os
from dataclasses import dataclass, field
from typing import Dict, Iterator, List, Optional, Tuple

PKG = "mlinsights"


CURRENT_REPO: List[Optional["Repo"]] = [None]


class AnalysisError(Exception):
    """The analyser met a shape it does not understand (-> exit 2)."""


@dataclass
class FunctionInfo:
    name: str
    qualname: str  # module:Class.func or module:func (nested: module:outer.<locals>.inner)
    node: ast.AST
    module: "ModuleInfo"
    cls: Optional["ClassInfo"] = None
    parent: Optional["FunctionInfo"] = None

    @property
    def params(self) -> List[str]:
        a = self.node.args
        names = [x.arg for x in a.posonlyargs + a.args]
        if a.vararg:
            names.append(a.vararg.arg)
        names += [x.arg for x in a.kwonlyargs]
        if a.kwarg:
            names.append(a.kwarg.arg)
        return names

    @property
    def named_params(self) -> List[str]:
        """positional-or-keyword and keyword-only parameters (no *a, **k)."""
        a = self.node.args
        return [x.arg for x in a.posonlyargs + a.args + a.kwonlyargs]

    def where(self) -> str:
        return f"{self.module.relpath}:{getattr(self.node, '_orig_lineno', self.node.lineno)}"

    def __hash__(self):
        return hash(self.qualname)

    def __eq__(self, o):
        return isinstance(o, FunctionInfo) and o.qualname == self.qualname


@dataclass
class ClassInfo:
    name: str
    qualname: str  # dotted module + "." + name
    node: ast.ClassDef
    module: "ModuleInfo"
    bases: List[str] = field(default_factory=list)  # resolved dotted names
    methods: Dict[str, FunctionInfo] = field(default_factory=dict)

    def __hash__(self):
        return hash(self.qualname)

    def __eq__(self, o):
        return isinstance(o, ClassInfo) and o.qualname == self.qualname


@dataclass
class ModuleInfo:
    name: str  # dotted
    relpath: str  # relative to repo root
    source: str
    tree: ast.Module
    is_package: bool
    imports: Dict[str, str] = field(default_factory=dict)  # local name -> dotted
    classes: Dict[str, ClassInfo] = field(default_factory=dict)
    functions: Dict[str, FunctionInfo] = field(default_factory=dict)


class Repo:
    """Parsed view of /repo/mlinsights (optionally with an overlay)."""

    def __init__(self, root: str = "/repo", overlay: Optional[Dict[str, str]] = None, look_through_helpers: bool = True):
        self.root = root
        self.overlay = dict(overlay or {})
        self.known_functions = None
        self.expanded_helpers: Dict[str, List[str]] = {}
        if look_through_helpers:
            from .inline import load_known

            self.known_functions = load_known()
        self.modules: Dict[str, ModuleInfo] = {}
        self.by_path: Dict[str, ModuleInfo] = {}
        self.all_functions: Dict[str, FunctionInfo] = {}
        self.parse_failures: List[str] = []
        self._load()
        CURRENT_REPO[0] = self  # the repository view the running rule analyses

    # ------------------------------------------------------------------ VFS
    def read(self, relpath: str) -> str:
        if relpath in self.overlay:
            return self.overlay[relpath]
        with open(os.path.join(self.root, relpath), "r", encoding="utf-8") as f:
            return f.read()

    def exists(self, relpath: str) -> bool:
        return relpath in self.overlay or os.path.exists(os.path.join(self.root, relpath))

    def list_files(self, suffixes=(".py",)) -> List[str]:
        out = []
        base = os.path.join(self.root, PKG)
        for dp, dn, fn in os.walk(base):
            dn[:] = sorted(d for d in dn if d != "__pycache__")
            for f in sorted(fn):
                if f.endswith(tuple(suffixes)):
                    out.append(os.path.relpath(os.path.join(dp, f), self.root))
        for p in self.overlay:
            if p not in out and p.endswith(tuple(suffixes)) and p.startswith(PKG + "/"):
                out.append(p)
        return sorted(out)

    # --------------------------------------------------------------- loading
    def _load(self):
        parsed = []
        for rel in self.list_files((".py",)):
            src = self.read(rel)
            try:
                tree = ast.parse(src, filename=rel)
            except SyntaxError as e:  # a file that does not parse is analysis-broken
                self.parse_failures.append(f"{rel}: {e}")
                continue
            parts = rel[:-3].split("/")
            is_pkg = parts[-1] == "__init__"
            if is_pkg:
                parts = parts[:-1]
            parsed.append((rel, src, tree, ".".join(parts), is_pkg))
        if self.known_functions is not None:
            from .inline import adopt_inherited_helpers

            adopt_inherited_helpers([(name, tree) for _r, _s, tree, name, _p in parsed], self.known_functions)
        for rel, src, tree, name, is_pkg in parsed:
            if self.known_functions is not None:
                # E-INL: calls to private helpers the rule tables do not know are
                # expanded in place (see engine/inline.py)
                from .inline import expand_unknown_helpers

                try:
                    from .inline import unroll_literal_loops, sink_selected_callees

                    from .inline import renumber, default_then_override

                    from .inline import literal_forms

                    from .inline import explicit_super

                    n_changed = explicit_super(tree)
                    n_changed += default_then_override(tree)
                    n_changed += unroll_literal_loops(tree)
                    n_changed += literal_forms(tree)
                    n_changed += sink_selected_callees(tree)
                    tree, exp = expand_unknown_helpers(tree, name, self.known_functions)
                    if exp:
                        self.expanded_helpers[rel] = sorted(set(exp))
                    from .inline import fold_module_tables

                    n_changed += fold_module_tables(tree)
                    if exp or n_changed:
                        renumber(tree)
                except RecursionError:  # pragma: no cover
                    tree = ast.parse(src, filename=rel)
            mi = ModuleInfo(name, rel, src, tree, is_pkg)
            self.modules[name] = mi
            self.by_path[rel] = mi
        for mi in self.modules.values():
            self._index_module(mi)
        for mi in self.modules.values():
            for ci in mi.classes.values():
                ci.bases = [self.resolve_expr(mi, b) or _dotted(b) or "?" for b in ci.node.bases]

    def _index_module(self, mi: ModuleInfo):
        for node in ast.walk(mi.tree):
            for child in ast.iter_child_nodes(node):
                child._parent = node  # type: ignore[attr-defined]
        # imports (module level and function level are both recorded; the
        # repository uses function-level imports for optional dependencies)
        for node in ast.walk(mi.tree):
            if isinstance(node, ast.Import):
                for a in node.names:
                    if a.asname:
                        mi.imports.setdefault(a.asname, a.name)
                    else:
                        top = a.name.split(".")[0]
                        mi.imports.setdefault(top, top)
            elif isinstance(node, ast.ImportFrom):
                base = self._from_base(mi, node)
                for a in node.names:
                    if a.name == "*":
                        continue
                    mi.imports.setdefault(a.asname or a.name, f"{base}.{a.name}" if base else a.name)
        for node in mi.tree.body:
            self._index_def(mi, node, None, None, mi.name + ":")

    def _from_base(self, mi: ModuleInfo, node: ast.ImportFrom) -> str:
        if node.level == 0:
            return node.module or ""
        parts = mi.name.split(".")
        if not mi.is_package:
            parts = parts[:-1]
        up = node.level - 1
        if up:
            parts = parts[:-up]
        if node.module:
            parts = parts + node.module.split(".")
        return ".".join(parts)

    def _index_def(self, mi, node, cls, parent, prefix):
        if isinstance(node, (ast.FunctionDef, ast.AsyncFunctionDef)):
            qn = prefix + node.name
            fi = FunctionInfo(node.name, qn, node, mi, cls, parent)
            self.all_functions[qn] = fi
            if cls is not None and parent is None:
                cls.methods.setdefault(node.name, fi)
            elif cls is None and parent is None:
                mi.functions.setdefault(node.name, fi)
            node._finfo = fi  # type: ignore[attr-defined]
            for sub in _walk_defs(node.body):
                self._index_def(mi, sub, cls, fi, qn + ".<locals>.")
        elif isinstance(node, ast.ClassDef):
            if parent is None and cls is None:
                ci = ClassInfo(node.name, f"{mi.name}.{node.name}", node, mi)
                mi.classes[node.name] = ci
                for sub in node.body:
                    self._index_def(mi, sub, ci, None, f"{mi.name}:{node.name}.")
            else:
                # nested class: index its methods as plain nested functions
                for sub in node.body:
                    self._index_def(mi, sub, None, parent, prefix + node.name + ".")
        elif isinstance(node, (ast.If, ast.Try)):
            # conditional definitions at module level (rare)
            for sub in _walk_defs([node]):
                if sub is not node:
                    self._index_def(mi, sub, cls, parent, prefix)

    # ------------------------------------------------------------ resolution
    def resolve_name(self, mi: ModuleInfo, name: str) -> Optional[str]:
        """Dotted target of a bare name used in module `mi` (or None)."""
        if name in mi.classes:
            return mi.classes[name].qualname
        if name in mi.functions:
            return f"{mi.name}.{name}"
        if name in mi.imports:
            return self.canonical(mi.imports[name])
        return None

    def resolve_expr(self, mi: ModuleInfo, expr: ast.AST) -> Optional[str]:
        """Dotted target of Name / Attribute chains (numpy.random.RandomState)."""
        d = _dotted(expr)
        if d is None:
            return None
        head, _, rest = d.partition(".")
        base = self.resolve_name(mi, head)
        if base is None:
            return None
        return self.canonical(base + ("." + rest if rest else ""))

    def canonical(self, dotted: str, _depth: int = 0) -> str:
        """Follow re-exports inside the repository (pkg.X -> pkg.mod.X)."""
        if not dotted.startswith(PKG) or _depth > 8:
            return _ALIASES.get(dotted, dotted)
        parts = dotted.split(".")
        # longest module prefix
        for k in range(len(parts), 0, -1):
            mod = ".".join(parts[:k])
            if mod in self.modules:
                rest = parts[k:]
                if not rest:
                    return dotted
                mi = self.modules[mod]
                head = rest[0]
                if head in mi.classes or head in mi.functions:
                    return dotted
                if head in mi.imports:
                    tgt = mi.imports[head] + ("." + ".".join(rest[1:]) if rest[1:] else "")
                    if tgt != dotted:
                        return self.canonical(tgt, _depth + 1)
                return dotted
        return dotted

    def get_class(self, dotted: str) -> Optional[ClassInfo]:
        dotted = self.canonical(dotted)
        mod, _, name = dotted.rpartition(".")
        mi = self.modules.get(mod)
        if mi and name in mi.classes:
            return mi.classes[name]
        return None

    def get_function(self, dotted: str) -> Optional[FunctionInfo]:
        dotted = self.canonical(dotted)
        mod, _, name = dotted.rpartition(".")
        mi = self.modules.get(mod)
        if mi and name in mi.functions:
            return mi.functions[name]
        return None

    def cls(self, module: str, name: str) -> ClassInfo:
        mi = self.modules.get(module)
        if mi is None or name not in mi.classes:
            raise AnalysisError(f"anchor vanished: class {module}.{name}")
        return mi.classes[name]

    def func(self, module: str, name: str) -> FunctionInfo:
        """module-level function, or 'Class.method'."""
        mi = self.modules.get(module)
        if mi is None:
            raise AnalysisError(f"anchor vanished: module {module}")
        if "." in name:
            c, m = name.split(".", 1)
            if c in mi.classes and m in mi.classes[c].methods:
                return mi.classes[c].methods[m]
            raise AnalysisError(f"anchor vanished: {module}:{name}")
        if name not in mi.functions:
            raise AnalysisError(f"anchor vanished: function {module}:{name}")
        return mi.functions[name]

    def nested(self, fi: FunctionInfo, name: str) -> FunctionInfo:
        qn = fi.qualname + ".<locals>." + name
        if qn not in self.all_functions:
            raise AnalysisError(f"anchor vanished: nested function {qn}")
        return self.all_functions[qn]

    # ------------------------------------------------------------------- MRO
    def mro(self, ci: ClassInfo) -> List[object]:
        """C3-less linearisation good enough for single/mixin inheritance:
        depth-first, left-to-right, duplicates removed keeping the LAST
        occurrence (which is what C3 gives for the diamond shapes used here).
        Elements are ClassInfo for repository classes and str for externals."""
        out: List[object] = []

        def rec(c):
            out.append(c)
            if isinstance(c, ClassInfo):
                for b in c.bases:
                    bc = self.get_class(b)
                    rec(bc if bc is not None else b)

        rec(ci)
        seen = set()
        res = []
        for c in reversed(out):
            k = c.qualname if isinstance(c, ClassInfo) else c
            if k in seen:
                continue
            seen.add(k)
            res.append(c)
        res.reverse()
        return res

    def find_method(self, ci: ClassInfo, name: str) -> Tuple[Optional[object], Optional[FunctionInfo]]:
        """(owner, FunctionInfo) of the first definition in the MRO; when the
        first class that could define it is external, (dotted, None)."""
        for c in self.mro(ci):
            if isinstance(c, ClassInfo):
                if name in c.methods:
                    return c, c.methods[name]
            else:
                if c in ("object", "?"):
                    continue
                return c, None
        return None, None

    def external_bases(self, ci: ClassInfo) -> List[str]:
        return [c for c in self.mro(ci) if isinstance(c, str)]

    def all_classes(self) -> Iterator[ClassInfo]:
        for mi in self.modules.values():
            yield from mi.classes.values()

    def functions_of(self, mi: ModuleInfo) -> Iterator[FunctionInfo]:
        for fi in self.all_functions.values():
            if fi.module is mi:
                yield fi


_ALIASES = {
    "np": "numpy",
}


def _walk_defs(body):
    """Yield def/class statements found in `body`, looking through compound
    statements but not into nested defs."""
    stack = list(body)
    while stack:
        n = stack.pop(0)
        if isinstance(n, (ast.FunctionDef, ast.AsyncFunctionDef, ast.ClassDef)):
            yield n
            continue
        for f in ("body", "orelse", "finalbody", "handlers"):
            sub = getattr(n, f, None)
            if isinstance(sub, list):
                stack = [s for s in sub if isinstance(s, ast.AST)] + stack


def _dotted(expr: ast.AST) -> Optional[str]:
    parts = []
    while isinstance(expr, ast.Attribute):
        parts.append(expr.attr)
        expr = expr.value
    if isinstance(expr, ast.Name):
        parts.append(expr.id)
        return ".".join(reversed(parts))
    return None


dotted = _dotted


def own_nodes(func: ast.AST) -> Iterator[ast.AST]:
    """Walk a function body without entering nested defs / lambdas / classes."""
    stack = list(ast.iter_child_nodes(func))
    while stack:
        n = stack.pop()
        yield n
        if isinstance(n, (ast.FunctionDef, ast.AsyncFunctionDef, ast.ClassDef, ast.Lambda)):
            continue
        stack.extend(ast.iter_child_nodes(n))


def own_nodes_incl_lambda(func: ast.AST) -> Iterator[ast.AST]:
    stack = list(ast.iter_child_nodes(func))
    while stack:
        n = stack.pop()
        yield n
        if isinstance(n, (ast.FunctionDef, ast.AsyncFunctionDef, ast.ClassDef)):
            continue
        stack.extend(ast.iter_child_nodes(n))


def src_of(node: ast.AST) -> str:
    try:
        return ast.unparse(node)
    except Exception:  # pragma: no cover
        return "<unparse failed>"


def first_line(node: ast.AST) -> str:
    return src_of(node).split("\n")[0][:160]
