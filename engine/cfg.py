"""E-CFG: statement-level control-flow graph with exception edges.

One node per simple statement, per test of if/while, per loop head, per `with`
entry, per handler entry.  try/finally is handled by inlining one copy of the
`finally` body per continuation kind (normal, exception, return, break,
continue), the classic construction; copies are shared between all jumps of the
same kind through the same `finally`.

Exception edges (label 'exc') leave every node whose own expression contains a
call, plus raise / assert / import / del / with-entry.  They go to the innermost
enclosing handler dispatcher, through the exception copies of the enclosing
`finally` bodies, or to the function's RAISE exit.
"""

from __future__ import annotations

import ast
from typing import Callable, Dict, Iterable, List, Optional, Set, Tuple

from .src import AnalysisError


class Node:
    __slots__ = ("id", "kind", "ast", "succ", "pred", "note")

    def __init__(self, nid: int, kind: str, a: Optional[ast.AST] = None, note: str = ""):
        self.id = nid
        self.kind = kind
        self.ast = a
        self.succ: List[Tuple[str, "Node"]] = []
        self.pred: List[Tuple[str, "Node"]] = []
        self.note = note

    @property
    def lineno(self) -> int:
        return getattr(self.ast, "lineno", 0) if self.ast is not None else 0

    def __repr__(self):
        s = ""
        if self.ast is not None:
            try:
                s = ast.unparse(self.ast).split("\n")[0][:60]
            except Exception:
                s = type(self.ast).__name__
        return f"<{self.id}:{self.kind}:{s}>"


def _expr_may_raise(e: Optional[ast.AST]) -> bool:
    if e is None:
        return False
    for n in ast.walk(e):
        if isinstance(n, (ast.Call, ast.Await, ast.Yield, ast.YieldFrom)):
            return True
    return False


class CFG:
    def __init__(self, func: ast.AST):
        self.func = func
        self.nodes: List[Node] = []
        self.entry = self._new("entry")
        self.exit = self._new("exit")  # normal return
        self.raise_exit = self._new("raise")  # exception leaves the function
        self._frames: List[dict] = []
        body = func.body if not isinstance(func, ast.Lambda) else [ast.Return(value=func.body)]
        ends = self._block(body, [(self.entry, "next")])
        if ends:
            imp = self._new("implicit_return", None)
            self._link(ends, imp)
            self._link([(imp, "next")], self.exit)

    # ------------------------------------------------------------- plumbing
    def _new(self, kind, a=None, note="") -> Node:
        n = Node(len(self.nodes), kind, a, note)
        self.nodes.append(n)
        return n

    @staticmethod
    def _link(preds: Iterable[Tuple[Node, str]], tgt: Node):
        for p, lab in preds:
            if (lab, tgt) not in p.succ:
                p.succ.append((lab, tgt))
                tgt.pred.append((lab, p))

    # -------------------------------------------------------------- unwinding
    def _unwind(self, start: List[Tuple[Node, str]], kind, stop_at: Optional[dict]):
        """Route a non-local jump outward through finally frames.  kind is
        'exc', 'return', ('break', loop) or ('continue', loop).  Returns the
        dangling ends still to be connected to the jump's target, or None when
        the jump has been fully routed (captured by a handler dispatcher, or
        merged into an already complete copy of a finally body)."""
        ends = start
        i = len(self._frames) - 1
        while i >= 0:
            fr = self._frames[i]
            if fr is stop_at:
                return ends
            if fr["type"] == "except" and kind == "exc":
                self._link(ends, fr["dispatch"])
                return None
            if fr["type"] == "finally":
                key = kind if isinstance(kind, str) else (kind[0], id(kind[1]))
                cache = fr["copies"]
                if key in cache:
                    self._link(ends, cache[key])
                    return None
                head = self._new("join", None, f"finally[{key if isinstance(key, str) else key[0]}]")
                cache[key] = head
                self._link(ends, head)
                saved = self._frames
                self._frames = saved[:i]
                try:
                    out_ends = self._block(fr["body"], [(head, "next")])
                    rest = self._unwind(out_ends, kind, stop_at) if out_ends else None
                    if rest:
                        self._finish_jump(rest, kind)
                finally:
                    self._frames = saved
                return None
            i -= 1
        return ends

    def _finish_jump(self, ends, kind):
        if ends is None:
            return
        if kind == "exc":
            self._link(ends, self.raise_exit)
        elif kind == "return":
            self._link(ends, self.exit)
        elif kind[0] == "break":
            kind[1]["breaks"].extend(ends)
        elif kind[0] == "continue":
            self._link(ends, kind[1]["head"])

    def _jump(self, start, kind, stop_at=None):
        ends = self._unwind(start, kind, stop_at)
        if ends:
            self._finish_jump(ends, kind)

    def _exc(self, node: Node):
        self._jump([(node, "exc")], "exc")

    # ------------------------------------------------------------- statements
    def _block(self, stmts, preds):
        for s in stmts:
            if not preds:
                break  # unreachable code is not represented
            preds = self._stmt(s, preds)
        return preds

    def _stmt(self, s, preds):
        if isinstance(s, (ast.Assign, ast.AugAssign, ast.AnnAssign, ast.Expr, ast.Delete)):
            n = self._new("stmt", s)
            self._link(preds, n)
            val = s if not isinstance(s, ast.Delete) else None
            if isinstance(s, ast.Delete) or _expr_may_raise(val):
                self._exc(n)
            return [(n, "next")]
        if isinstance(s, (ast.Pass, ast.Global, ast.Nonlocal, ast.FunctionDef, ast.AsyncFunctionDef, ast.ClassDef)):
            n = self._new("stmt", s)
            self._link(preds, n)
            return [(n, "next")]
        if isinstance(s, (ast.Import, ast.ImportFrom)):
            n = self._new("stmt", s)
            self._link(preds, n)
            self._exc(n)
            return [(n, "next")]
        if isinstance(s, ast.Assert):
            n = self._new("stmt", s)
            self._link(preds, n)
            self._exc(n)
            return [(n, "next")]
        if isinstance(s, ast.Return):
            n = self._new("return", s)
            self._link(preds, n)
            if _expr_may_raise(s.value):
                self._exc(n)
            self._jump([(n, "next")], "return")
            return []
        if isinstance(s, ast.Raise):
            n = self._new("raise_stmt", s)
            self._link(preds, n)
            self._exc(n)
            return []
        if isinstance(s, ast.If):
            t = self._new("test", s.test)
            t.note = "if"
            self._link(preds, t)
            if _expr_may_raise(s.test):
                self._exc(t)
            a = self._block(s.body, [(t, "true")])
            b = self._block(s.orelse, [(t, "false")]) if s.orelse else [(t, "false")]
            return a + b
        if isinstance(s, ast.While):
            t = self._new("test", s.test)
            t.note = "while"
            self._link(preds, t)
            if _expr_may_raise(s.test):
                self._exc(t)
            fr = {"type": "loop", "head": t, "breaks": []}
            self._frames.append(fr)
            body_end = self._block(s.body, [(t, "true")])
            self._frames.pop()
            self._link(body_end, t)
            always = isinstance(s.test, ast.Constant) and bool(s.test.value)
            after = [] if always else [(t, "false")]
            if s.orelse:
                after = self._block(s.orelse, after)
            return after + fr["breaks"]
        if isinstance(s, (ast.For, ast.AsyncFor)):
            h = self._new("for", s)
            self._link(preds, h)
            if _expr_may_raise(s.iter):
                self._exc(h)
            fr = {"type": "loop", "head": h, "breaks": []}
            self._frames.append(fr)
            body_end = self._block(s.body, [(h, "iter")])
            self._frames.pop()
            self._link(body_end, h)
            after = [(h, "done")]
            if s.orelse:
                after = self._block(s.orelse, after)
            return after + fr["breaks"]
        if isinstance(s, ast.Break):
            n = self._new("stmt", s)
            self._link(preds, n)
            loop = self._innermost_loop()
            self._jump([(n, "next")], ("break", loop), stop_at=loop)
            return []
        if isinstance(s, ast.Continue):
            n = self._new("stmt", s)
            self._link(preds, n)
            loop = self._innermost_loop()
            self._jump([(n, "next")], ("continue", loop), stop_at=loop)
            return []
        if isinstance(s, (ast.With, ast.AsyncWith)):
            n = self._new("with", s)
            self._link(preds, n)
            self._exc(n)
            return self._block(s.body, [(n, "next")])
        if isinstance(s, ast.Try) or s.__class__.__name__ == "TryStar":
            return self._try(s, preds)
        raise AnalysisError(f"CFG: unsupported statement {type(s).__name__} at line {getattr(s, 'lineno', '?')}")

    def _innermost_loop(self):
        for fr in reversed(self._frames):
            if fr["type"] == "loop":
                return fr
        raise AnalysisError("break/continue outside loop")

    def _try(self, s, preds):
        fin = None
        if s.finalbody:
            fin = {"type": "finally", "body": s.finalbody, "copies": {}}
            self._frames.append(fin)
        ends_all = []
        if s.handlers:
            disp = self._new("dispatch", s)
            exf = {"type": "except", "dispatch": disp}
            self._frames.append(exf)
            body_end = self._block(s.body, preds)
            self._frames.pop()
            catch_all = False
            for h in s.handlers:
                hn = self._new("except", h)
                self._link([(disp, "exc")], hn)
                ends_all += self._block(h.body, [(hn, "next")])
                if h.type is None or (
                    isinstance(h.type, ast.Name) and h.type.id in ("BaseException", "Exception")
                ):
                    catch_all = True
            if not catch_all:
                self._jump([(disp, "exc")], "exc")
            if not disp.pred:
                pass  # no statement of the body can raise: handlers unreachable
        else:
            body_end = self._block(s.body, preds)
        if s.orelse:
            body_end = self._block(s.orelse, body_end)
        ends_all += body_end
        if fin is not None:
            self._frames.pop()
            if ends_all:
                head = self._new("join", None, "finally[normal]")
                self._link(ends_all, head)
                ends_all = self._block(s.finalbody, [(head, "next")])
        return ends_all

    # --------------------------------------------------------------- queries
    def reachable(self) -> Set[int]:
        seen = {self.entry.id}
        st = [self.entry]
        while st:
            n = st.pop()
            for _, m in n.succ:
                if m.id not in seen:
                    seen.add(m.id)
                    st.append(m)
        return seen

    def stmt_nodes(self, pred: Callable[[Node], bool] = lambda n: True) -> List[Node]:
        r = self.reachable()
        return [n for n in self.nodes if n.id in r and n.ast is not None and pred(n)]


def build_cfg(func: ast.AST) -> CFG:
    cached = getattr(func, "_cfg", None)
    if cached is None:
        cached = CFG(func)
        try:
            func._cfg = cached  # type: ignore[attr-defined]
        except Exception:
            pass
    return cached


# --------------------------------------------------------------------------
# generic forward data-flow solver
# --------------------------------------------------------------------------


def forward(
    cfg: CFG,
    init,
    transfer: Callable[[Node, object, str], object],
    join: Callable[[object, object], object],
    bottom=None,
    max_iter: int = 100000,
) -> Dict[int, object]:
    """Worklist solver.  `transfer(node, in_state, edge_label)` gives the state
    on that outgoing edge.  Returns IN states per node id (bottom = unreached)."""
    IN: Dict[int, object] = {cfg.entry.id: init}
    work = [cfg.entry]
    it = 0
    while work:
        it += 1
        if it > max_iter:
            raise AnalysisError("dataflow did not converge")
        n = work.pop()
        s = IN[n.id]
        for lab, m in n.succ:
            out = transfer(n, s, lab)
            if out is bottom and bottom is not None:
                continue
            if m.id not in IN:
                IN[m.id] = out
                work.append(m)
            else:
                j = join(IN[m.id], out)
                if j != IN[m.id]:
                    IN[m.id] = j
                    work.append(m)
    return IN


def dominators(cfg: CFG) -> Dict[int, Set[int]]:
    r = cfg.reachable()
    ids = [n.id for n in cfg.nodes if n.id in r]
    dom = {i: set(ids) for i in ids}
    dom[cfg.entry.id] = {cfg.entry.id}
    changed = True
    while changed:
        changed = False
        for n in cfg.nodes:
            if n.id not in r or n is cfg.entry:
                continue
            ps = [p.id for _, p in n.pred if p.id in r]
            new = set.intersection(*(dom[p] for p in ps)) if ps else set()
            new = new | {n.id}
            if new != dom[n.id]:
                dom[n.id] = new
                changed = True
    return dom


def paths_avoiding(
    cfg: CFG,
    start: Node,
    targets: Set[int],
    blockers: Set[int],
    follow: Callable[[Node, str, Node], bool] = lambda a, lab, b: True,
    start_labels: Optional[Set[str]] = None,
) -> Optional[List[Node]]:
    """Is there a path from `start` (exclusive) to a node in `targets` that
    passes through no node of `blockers`?  Returns one such path (BFS, hence
    shortest) or None."""
    from collections import deque

    prev: Dict[int, Optional[Node]] = {}
    dq = deque()
    for lab, m in start.succ:
        if start_labels is not None and lab not in start_labels:
            continue
        if not follow(start, lab, m):
            continue
        if m.id not in prev:
            prev[m.id] = start
            dq.append(m)
    while dq:
        n = dq.popleft()
        if n.id in blockers:
            continue
        if n.id in targets:
            path = [n]
            p = prev[n.id]
            while p is not None and p is not start:
                path.append(p)
                p = prev.get(p.id)
            path.append(start)
            path.reverse()
            return path
        for lab, m in n.succ:
            if not follow(n, lab, m):
                continue
            if m.id not in prev:
                prev[m.id] = n
                dq.append(m)
    return None


def fmt_path(path: List[Node]) -> str:
    out = []
    for n in path:
        if n.kind in ("join",):
            continue
        if n.ast is not None:
            try:
                t = ast.unparse(n.ast).split("\n")[0][:70]
            except Exception:
                t = n.kind
            out.append(f"L{getattr(n.ast, '_orig_lineno', n.lineno) if n.ast is not None else n.lineno}:{t}")
        else:
            out.append(n.kind.upper())
    return " -> ".join(out)
