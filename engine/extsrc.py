"""Read-only access to the *source* of named external classes (scikit-learn).

Used for (a) constructor signatures of external parents that repository
constructors forward to, and (b) the parent of an override that must agree with
it (C14).  Files are located on sys.path and parsed with `ast`; nothing is
imported.
"""

from __future__ import annotations

import ast
import os
import sys
from typing import Dict, List, Optional, Tuple

_cache: Dict[str, Optional[ast.Module]] = {}


def _find_module_file(dotted_mod: str) -> Optional[str]:
    parts = dotted_mod.split(".")
    for base in sys.path:
        if not base or not os.path.isdir(base):
            continue
        p = os.path.join(base, *parts)
        if os.path.isfile(p + ".py"):
            return p + ".py"
        if os.path.isfile(os.path.join(p, "__init__.py")):
            return os.path.join(p, "__init__.py")
    return None


def module_tree(dotted_mod: str) -> Optional[ast.Module]:
    if dotted_mod in _cache:
        return _cache[dotted_mod]
    f = _find_module_file(dotted_mod)
    tree = None
    if f:
        try:
            with open(f, "r", encoding="utf-8") as fh:
                tree = ast.parse(fh.read(), filename=f)
            tree._file = f  # type: ignore[attr-defined]
            tree._is_pkg = f.endswith("__init__.py")  # type: ignore[attr-defined]
        except (OSError, SyntaxError):
            tree = None
    _cache[dotted_mod] = tree
    return tree


def find_class(dotted: str, _depth: int = 0) -> Optional[Tuple[ast.ClassDef, str]]:
    """(ClassDef, module dotted) of an external class, following `from .x
    import Y` re-exports."""
    if _depth > 6 or "." not in dotted:
        return None
    mod, name = dotted.rsplit(".", 1)
    tree = module_tree(mod)
    if tree is None:
        return None
    for n in tree.body:
        if isinstance(n, ast.ClassDef) and n.name == name:
            return n, mod
    for n in ast.walk(tree):
        if isinstance(n, ast.ImportFrom):
            for a in n.names:
                if (a.asname or a.name) == name:
                    if n.level:
                        parts = mod.split(".")
                        if not getattr(tree, "_is_pkg", False):
                            parts = parts[:-1]
                        if n.level > 1:
                            parts = parts[: -(n.level - 1)]
                        base = ".".join(parts + (n.module.split(".") if n.module else []))
                    else:
                        base = n.module or ""
                    return find_class(f"{base}.{a.name}", _depth + 1)
    return None


def find_method(dotted_cls: str, meth: str, _depth: int = 0) -> Optional[Tuple[ast.FunctionDef, str]]:
    """First definition of `meth` along the (left-to-right, depth-first) bases
    of an external class."""
    if _depth > 8:
        return None
    r = find_class(dotted_cls)
    if r is None:
        return None
    cd, mod = r
    for n in cd.body:
        if isinstance(n, ast.FunctionDef) and n.name == meth:
            return n, f"{mod}.{cd.name}"
    tree = module_tree(mod)
    for b in cd.bases:
        bn = _resolve_in(tree, mod, b)
        if bn:
            got = find_method(bn, meth, _depth + 1)
            if got:
                return got
    return None


def _resolve_in(tree: ast.Module, mod: str, expr: ast.AST) -> Optional[str]:
    if isinstance(expr, ast.Name):
        for n in tree.body:
            if isinstance(n, ast.ClassDef) and n.name == expr.id:
                return f"{mod}.{expr.id}"
        for n in ast.walk(tree):
            if isinstance(n, ast.ImportFrom):
                for a in n.names:
                    if (a.asname or a.name) == expr.id:
                        if n.level:
                            parts = mod.split(".")
                            if not getattr(tree, "_is_pkg", False):
                                parts = parts[:-1]
                            if n.level > 1:
                                parts = parts[: -(n.level - 1)]
                            base = ".".join(parts + (n.module.split(".") if n.module else []))
                        else:
                            base = n.module or ""
                        return f"{base}.{a.name}"
    return None


def init_params(dotted_cls: str) -> Optional[List[str]]:
    """Positional-or-keyword + keyword-only parameter names of the external
    class's __init__ (without self), or None when not resolvable."""
    got = find_method(dotted_cls, "__init__")
    if got is None:
        return None
    fn, _ = got
    a = fn.args
    names = [x.arg for x in a.posonlyargs + a.args][1:] + [x.arg for x in a.kwonlyargs]
    return names


def init_positional(dotted_cls: str) -> Optional[List[str]]:
    got = find_method(dotted_cls, "__init__")
    if got is None:
        return None
    fn, _ = got
    a = fn.args
    return [x.arg for x in a.posonlyargs + a.args][1:]


_assigned_cache: Dict[str, set] = {}


def assigned_attrs(dotted_cls: str, _depth: int = 0) -> set:
    """names X such that some method of the external class (or one of its
    bases) contains `self.X = ...` / `self.X += ...` — the attributes the
    external parent's fit may assign."""
    if dotted_cls in _assigned_cache:
        return _assigned_cache[dotted_cls]
    out: set = set()
    _assigned_cache[dotted_cls] = out
    if _depth > 8:
        return out
    r = find_class(dotted_cls)
    if r is None:
        return out
    cd, mod = r
    for n in ast.walk(cd):
        if isinstance(n, ast.Attribute) and isinstance(n.ctx, ast.Store) and isinstance(n.value, ast.Name) and n.value.id == "self":
            out.add(n.attr)
    tree = module_tree(mod)
    for b in cd.bases:
        bn = _resolve_in(tree, mod, b)
        if bn:
            out |= assigned_attrs(bn, _depth + 1)
    return out
