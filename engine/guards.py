"""Path conditions: which branch outcomes hold on EVERY path from the function
entry to a statement.  Unlike syntactic nesting, this treats

    if not c: return A           and        if c:
    <stmt>                                      <stmt>

alike: <stmt> executes only under c in both.  Conditions are canonical texts of
atomic tests (conjunctions split on the true edge, disjunctions on the false
edge, `not` folded into the polarity, comparisons canonicalised).
"""

from __future__ import annotations

import ast
from typing import Dict, FrozenSet, List, Optional, Set, Tuple

from .cfg import build_cfg, forward, Node
from .util import assign_targets
from . import norm

Cond = Tuple[str, bool]


def atoms(test: ast.AST, truth: bool) -> Set[Cond]:
    """atomic facts implied by `test` evaluating to `truth`"""
    out: Set[Cond] = set()
    if isinstance(test, ast.UnaryOp) and isinstance(test.op, ast.Not):
        return atoms(test.operand, not truth)
    if isinstance(test, ast.BoolOp):
        if isinstance(test.op, ast.And) and truth:
            for v in test.values:
                out |= atoms(v, True)
            return out
        if isinstance(test.op, ast.Or) and not truth:
            for v in test.values:
                out |= atoms(v, False)
            return out
        # a disjunction that is true / a conjunction that is false: keep as one atom
    out.add(canon_cond(test, truth))
    return out


_POS = {ast.IsNot: ast.Is, ast.NotEq: ast.Eq, ast.NotIn: ast.In}
_ORDER_NEG = {ast.Lt: ast.GtE, ast.LtE: ast.Gt, ast.Gt: ast.LtE, ast.GtE: ast.Lt}


def canon_cond(test: ast.AST, truth: bool) -> Cond:
    """canonical (text, polarity):
       `x is not None` true  ==  (`x is None`, False)
       `a > b` true == `not a <= b` == (`b < a`, True)   (order comparisons never carry polarity False)"""
    if isinstance(test, ast.UnaryOp) and isinstance(test.op, ast.Not):
        return canon_cond(test.operand, not truth)
    if isinstance(test, ast.Compare) and len(test.ops) == 1:
        op = type(test.ops[0])
        if op in _POS:
            return canon_cond(ast.Compare(left=test.left, ops=[_POS[op]()], comparators=test.comparators), not truth)
        if op in _ORDER_NEG and not truth:
            return canon_cond(ast.Compare(left=test.left, ops=[_ORDER_NEG[op]()], comparators=test.comparators), True)
    try:
        t = ast.unparse(norm.canon(test, rename=False))
    except Exception:
        t = ast.dump(test)
    return (t, truth)


def cond_text(src: str, truth: bool = True) -> Cond:
    return canon_cond(ast.parse(src, mode="eval").body, truth)


class PathConditions:
    def __init__(self, func: ast.AST, expand=None):
        """expand: optional callable(test_expr) -> expanded test expr (temporaries
        and simple helpers inlined), applied before canonicalisation"""
        self.func = func
        self.cfg = build_cfg(func)
        self._expand = expand

        def kills(n: Node) -> Set[str]:
            out = set()
            if n.kind in ("stmt", "for", "with") and n.ast is not None:
                for t in assign_targets(n.ast):
                    try:
                        out.add(ast.unparse(t))
                    except Exception:
                        pass
            return out

        def transfer(n: Node, st: FrozenSet[Cond], label: str):
            if n.kind == "test" and n.ast is not None and label in ("true", "false"):
                t = n.ast
                if self._expand is not None:
                    try:
                        t = self._expand(t)
                    except Exception:
                        t = n.ast
                return st | frozenset(atoms(t, label == "true"))
            if label == "exc":
                return st
            k = kills(n)
            if k:
                st = frozenset(c for c in st if not any(_mentions(c[0], kk) for kk in k))
            return st

        self.IN: Dict[int, FrozenSet[Cond]] = forward(self.cfg, frozenset(), transfer, lambda a, b: a & b)
        self._node_of: Dict[int, Node] = {}
        for n in self.cfg.nodes:
            if n.ast is not None and n.id in self.IN:
                self._node_of.setdefault(id(n.ast), n)

    def node_of(self, a: ast.AST) -> Optional[Node]:
        cur = a
        while cur is not None:
            n = self._node_of.get(id(cur))
            if n is not None:
                return n
            cur = getattr(cur, "_parent", None)
            if cur is self.func:
                break
        return None

    def at(self, a: ast.AST) -> FrozenSet[Cond]:
        """conditions that hold whenever the statement containing `a` starts to
        execute, plus those of enclosing conditional expressions"""
        n = self.node_of(a)
        base = self.IN.get(n.id, frozenset()) if n is not None else frozenset()
        extra: Set[Cond] = set()
        child = a
        p = getattr(a, "_parent", None)
        while p is not None and not isinstance(p, ast.stmt):
            if isinstance(p, ast.IfExp):
                t = p.test
                if self._expand is not None:
                    try:
                        t = self._expand(t)
                    except Exception:
                        t = p.test
                if p.body is child:
                    extra |= atoms(t, True)
                elif p.orelse is child:
                    extra |= atoms(t, False)
            if isinstance(p, ast.BoolOp) and isinstance(p.op, ast.And):
                # b in `a and b` is evaluated only when a is true
                for v in p.values:
                    if v is child:
                        break
                    extra |= atoms(v, True)
            child = p
            p = getattr(p, "_parent", None)
        return base | frozenset(extra)

    def holds(self, a: ast.AST, src: str, truth: bool = True) -> bool:
        return cond_text(src, truth) in self.at(a)


def _mentions(text: str, name: str) -> bool:
    import re

    return re.search(r"(?<![\w.])" + re.escape(name) + r"(?![\w])", text) is not None


_cache: Dict[int, PathConditions] = {}


def path_conditions(func: ast.AST, expand=None) -> PathConditions:
    key = "_pathcond_x" if expand is not None else "_pathcond"
    pc = getattr(func, key, None)
    if pc is None:
        pc = PathConditions(func, expand)
        try:
            setattr(func, key, pc)
        except Exception:
            pass
    return pc
