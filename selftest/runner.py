"""Checker self-validation (thorough tier).

Each rule module may define
  WITNESSES: list of dicts {name, file, old, new, rule[, count]}  -- an edit of
      the CURRENT source that breaks one rule instance; the rule must fire
      (a VIOLATED obligation of `rule` that the unedited tree does not have).
  TWINS: list of dicts {name, file, old, new} -- a behaviour-preserving
      rewrite; no new VIOLATED or UNKNOWN obligation may appear.
Edits are textual replacements applied through the in-memory overlay of
engine.src.Repo (no scratch copy on disk).  `old` must occur exactly `count`
times (default 1) in the current file; an edit that can no longer be applied is
reported as skipped (the anchor moved), not as a failure; at least one must
apply and fire or the run is analysis-broken (exit 2).  `MIN_WITNESSES` is the
number that applies on the pinned tree (recorded in the evidence).
"""

from __future__ import annotations

import os
from concurrent.futures import ProcessPoolExecutor
from typing import Dict, List, Tuple

from engine.src import Repo, AnalysisError
from engine.report import Checker, VIOLATED, UNKNOWN


def _run_variant(args) -> Tuple[str, str, List[Tuple[str, str, str, str]], str]:
    root, modname, overlay, name = args
    import importlib

    try:
        repo = Repo(root, overlay)
        ck = Checker(modname.upper(), "quick", repo, quiet=True)
        mod = importlib.import_module(f"rules.{modname}")
        mod.run(ck)
        res = [(o.rule, o.function, o.statement, o.verdict) for o in ck.obs if o.verdict in (VIOLATED, UNKNOWN)]
        return name, "ok", res, ""
    except AnalysisError as e:
        return name, "analysis-error", [], str(e)
    except Exception as e:  # pragma: no cover
        return name, "crash", [], f"{type(e).__name__}: {e}"


def run_for_property(ck, mod):
    wit = list(getattr(mod, "WITNESSES", []))
    twins = list(getattr(mod, "TWINS", []))
    if not wit and not twins:
        ck.notes.append("no self-test corpus for this property yet")
        return
    repo = ck.repo
    base = {(o.rule, o.function, o.statement) for o in ck.obs if o.verdict in (VIOLATED, UNKNOWN)}
    jobs = []
    skipped = []
    for kind, items in (("witness", wit), ("twin", twins)):
        for w in items:
            try:
                src = repo.read(w["file"])
            except OSError:
                skipped.append(w["name"])
                continue
            cnt = w.get("count", 1)
            if src.count(w["old"]) != cnt:
                skipped.append(w["name"])
                continue
            new_src = src.replace(w["old"], w["new"])
            jobs.append((kind, w, (repo.root, mod.__name__.split(".")[-1], {w["file"]: new_src}, w["name"])))
    results: Dict[str, Tuple[str, list, str]] = {}
    workers = min(16, max(1, len(jobs)))
    if len(jobs) > 2:
        with ProcessPoolExecutor(max_workers=workers) as ex:
            for name, status, res, msg in ex.map(_run_variant, [j[2] for j in jobs]):
                results[name] = (status, res, msg)
    else:
        for j in jobs:
            name, status, res, msg = _run_variant(j[2])
            results[name] = (status, res, msg)
    detected = silent = 0
    for kind, w, _ in jobs:
        status, res, msg = results[w["name"]]
        new = [r for r in res if (r[0], r[1], r[2]) not in base]
        if kind == "witness":
            hit = [r for r in new if r[0] == w["rule"] and r[3] == VIOLATED]
            if status == "ok" and hit:
                detected += 1
            else:
                ck.unknown(
                    "SELFTEST",
                    None,
                    f"witness {w['name']}",
                    f"edit of {w['file']} that breaks {w['rule']} was not reported (status={status} {msg}; new findings={new[:3]})",
                    file=w["file"],
                    function="-",
                    line=0,
                )
        else:
            if status == "ok" and not new:
                silent += 1
            else:
                ck.unknown(
                    "SELFTEST",
                    None,
                    f"twin {w['name']}",
                    f"behaviour-preserving rewrite of {w['file']} raised {new[:3]} (status={status} {msg})",
                    file=w["file"],
                    function="-",
                    line=0,
                )
    ck.extra["witnesses_generated"] = sum(1 for k, _, _ in jobs if k == "witness")
    ck.extra["witnesses_detected"] = detected
    ck.extra["refactor_twins"] = sum(1 for k, _, _ in jobs if k == "twin")
    ck.extra["refactor_twins_silent"] = silent
    ck.extra["selftest_skipped"] = skipped
    # textual witness edits follow the source: on a tree whose anchored text was rewritten
    # many of them no longer apply, which says nothing about the property or the rules (the
    # rules' own instance counts guard against vacuity).  Only a corpus of which nothing at
    # all applies and fires is reported.
    minw = min(getattr(mod, "MIN_WITNESSES", 0), 1)
    ck.extra["selftest_expected_on_pinned_tree"] = getattr(mod, "MIN_WITNESSES", 0)
    if detected < minw:
        ck.unknown(
            "SELFTEST",
            None,
            f"{detected} witness(es) detected < {minw}",
            f"too few witness edits could be applied and detected (skipped: {skipped})",
            file="-",
            function="-",
            line=0,
        )
    for _ in range(detected):
        pass
    ck.rule("SELFTEST", "witness edits of the current tree must turn their rule VIOLATED; behaviour-preserving twins must stay silent")
